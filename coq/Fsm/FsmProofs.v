(* Fsm/FsmProofs.v — C02: compaction / snapshot / restore are invisible (repaired variant),
   by an invariant over all schedules; refutations for the pinned variant and for restarts
   without a persisted snapshot (D18). *)
From Coq Require Import List ZArith NArith Bool String Lia ZifyN ZifyNat ZifyBool Sorting.Sorted.
From RV Require Import Fsm.Fsm.
Import ListNotations.
Local Open Scope N_scope.

(* ================================================================================== *)
(* generic list facts                                                                  *)
(* ================================================================================== *)
Definition idxs (l : list entry) : list N := map e_idx l.
Definition sorted (l : list entry) : Prop := StronglySorted N.lt (idxs l).

Lemma sorted_cons_inv : forall e l, sorted (e :: l) ->
  sorted l /\ Forall (fun x => e_idx e < e_idx x) l.
Proof.
  unfold sorted, idxs. cbn [map]. intros e l H. inversion H as [|a b Hs Hf]; subst.
  split; [exact Hs|]. rewrite Forall_map in Hf. exact Hf.
Qed.

Lemma sorted_cons : forall e l, sorted l -> Forall (fun x => e_idx e < e_idx x) l -> sorted (e :: l).
Proof.
  unfold sorted, idxs. cbn [map]. intros e l Hs Hf. constructor; [exact Hs|].
  rewrite Forall_map. exact Hf.
Qed.

Lemma sorted_nil : sorted [].
Proof. constructor. Qed.

Lemma sorted_filter : forall p l, sorted l -> sorted (filter p l).
Proof.
  intros p l. induction l as [|e l IH]; intros Hs; [exact Hs|].
  apply sorted_cons_inv in Hs. destruct Hs as [Hs Hf]. cbn [filter].
  destruct (p e).
  - apply sorted_cons; [apply IH; exact Hs|].
    rewrite Forall_forall in *. intros x Hx. apply filter_In in Hx. apply Hf. tauto.
  - apply IH. exact Hs.
Qed.

Lemma sorted_app_inv : forall l1 l2, sorted (l1 ++ l2) ->
  sorted l1 /\ sorted l2 /\ (forall a b, In a l1 -> In b l2 -> e_idx a < e_idx b).
Proof.
  induction l1 as [|e l1 IH]; intros l2 Hs.
  - cbn in Hs. split; [apply sorted_nil|]. split; [exact Hs|]. intros a b [].
  - cbn [app] in Hs. apply sorted_cons_inv in Hs. destruct Hs as [Hs Hf].
    destruct (IH _ Hs) as (H1 & H2 & H3). rewrite Forall_forall in Hf.
    split.
    + apply sorted_cons; [exact H1|]. rewrite Forall_forall. intros x Hx. apply Hf. apply in_or_app. tauto.
    + split; [exact H2|]. intros a b [Ha|Ha] Hb.
      * subst a. apply Hf. apply in_or_app. tauto.
      * apply H3; assumption.
Qed.

Lemma sorted_app : forall l1 l2, sorted l1 -> sorted l2 ->
  (forall a b, In a l1 -> In b l2 -> e_idx a < e_idx b) -> sorted (l1 ++ l2).
Proof.
  induction l1 as [|e l1 IH]; intros l2 H1 H2 H3; [exact H2|].
  cbn [app]. apply sorted_cons_inv in H1. destruct H1 as [H1 Hf].
  apply sorted_cons.
  - apply IH; [exact H1|exact H2|]. intros a b Ha Hb. apply H3; [right; exact Ha|exact Hb].
  - rewrite Forall_forall in *. intros x Hx. apply in_app_or in Hx. destruct Hx as [Hx|Hx].
    + apply Hf. exact Hx.
    + apply H3; [left; reflexivity|exact Hx].
Qed.

Lemma firstn_skipn_sorted : forall n l, sorted l ->
  sorted (firstn n l) /\ sorted (skipn n l) /\
  (forall a b, In a (firstn n l) -> In b (skipn n l) -> e_idx a < e_idx b).
Proof.
  intros n l Hs. rewrite <- (firstn_skipn n l) in Hs. apply sorted_app_inv. exact Hs.
Qed.

(* a filter that accepts everything / nothing *)
Lemma filter_all : forall (A : Type) (p : A -> bool) l, (forall x, In x l -> p x = true) -> filter p l = l.
Proof.
  intros A p l. induction l as [|a l IH]; intros H; [reflexivity|].
  cbn [filter]. rewrite (H a (or_introl eq_refl)). f_equal. apply IH. intros x Hx. apply H. right. exact Hx.
Qed.
Lemma filter_none : forall (A : Type) (p : A -> bool) l, (forall x, In x l -> p x = false) -> filter p l = [].
Proof.
  intros A p l. induction l as [|a l IH]; intros H; [reflexivity|].
  cbn [filter]. rewrite (H a (or_introl eq_refl)). apply IH. intros x Hx. apply H. right. exact Hx.
Qed.
Lemma filter_filter_comm : forall (A : Type) (p q : A -> bool) l,
  filter p (filter q l) = filter q (filter p l).
Proof.
  intros A p q l. induction l as [|a l IH]; [reflexivity|].
  cbn [filter]. destruct (p a) eqn:Hp, (q a) eqn:Hq; cbn [filter]; rewrite ?Hp, ?Hq, IH; reflexivity.
Qed.

(* splitting a sorted list at an index bound *)
Definition le_idx (b : N) (e : entry) : bool := e_idx e <=? b.
Definition gt_idx (b : N) (e : entry) : bool := b <? e_idx e.

Lemma split_at : forall b l, sorted l -> l = filter (le_idx b) l ++ filter (gt_idx b) l.
Proof.
  intros b l. induction l as [|e l IH]; intros Hs; [reflexivity|].
  apply sorted_cons_inv in Hs. destruct Hs as [Hs Hf]. cbn [filter]. unfold le_idx at 1, gt_idx at 1.
  destruct (e_idx e <=? b) eqn:Hle.
  - assert (Hgt : b <? e_idx e = false) by lia. rewrite Hgt. cbn [app]. f_equal. apply IH. exact Hs.
  - assert (Hgt : b <? e_idx e = true) by lia. rewrite Hgt.
    rewrite (filter_none _ (le_idx b) l), (filter_all _ (gt_idx b) l); [reflexivity| |].
    + intros x Hx. rewrite Forall_forall in Hf. specialize (Hf x Hx). unfold gt_idx. lia.
    + intros x Hx. rewrite Forall_forall in Hf. specialize (Hf x Hx). unfold le_idx. lia.
Qed.

Lemma firstn_snoc : forall (A : Type) (l : list A) n x, nth_error l n = Some x ->
  firstn (Datatypes.S n) l = firstn n l ++ [x].
Proof.
  intros A l. induction l as [|a l IH]; intros n x H.
  - destruct n; discriminate.
  - destruct n as [|n].
    + cbn in H. injection H as ->. reflexivity.
    + cbn [nth_error] in H. cbn [firstn app]. f_equal. apply IH. exact H.
Qed.

Lemma nth_error_skipn_in : forall (A : Type) (l : list A) n x, nth_error l n = Some x -> In x (skipn n l).
Proof.
  intros A l. induction l as [|a l IH]; intros n x H.
  - destruct n; discriminate.
  - destruct n as [|n]; cbn in *.
    + injection H as ->. left. reflexivity.
    + apply IH. exact H.
Qed.

Lemma skipn_S_subset : forall (A : Type) (l : list A) n x, In x (skipn (Datatypes.S n) l) -> In x (skipn n l).
Proof.
  intros A l. induction l as [|a l IH]; intros n x H.
  - destruct n; exact H.
  - destruct n as [|n].
    + cbn in *. right. exact H.
    + cbn [skipn] in *. apply IH. exact H.
Qed.

(* ================================================================================== *)
(* stores                                                                              *)
(* ================================================================================== *)
Section StoreFacts.
  Context {V : Type}.

  Lemma put_snoc : forall k (v : V) m, Forall (fun kv => fst kv < k) m -> put k v m = m ++ [(k, v)].
  Proof.
    intros k v m. induction m as [|[k' v'] m IH]; intros H; [reflexivity|].
    inversion H as [|x y Hx Hy]; subst. cbn [fst] in Hx. cbn [put].
    assert (H1 : k <? k' = false) by lia. assert (H2 : k =? k' = false) by lia.
    rewrite H1, H2. cbn [app]. f_equal. apply IH. exact Hy.
  Qed.

  Lemma in_put : forall k (v : V) m x, In x (put k v m) -> x = (k, v) \/ In x m.
  Proof.
    intros k v m. induction m as [|[k' v'] m IH]; intros x H.
    - cbn in H. destruct H as [H|[]]. left. symmetry. exact H.
    - cbn [put] in H. destruct (k <? k').
      + destruct H as [H|H]; [left; symmetry; exact H|right; exact H].
      + destruct (k =? k').
        * destruct H as [H|H]; [left; symmetry; exact H|right; right; exact H].
        * destruct H as [H|H]; [right; left; exact H|].
          destruct (IH _ H) as [H'|H']; [left; exact H'|right; right; exact H'].
  Qed.

  Lemma put_has_key : forall k (v : V) m, In (k, v) (put k v m).
  Proof.
    intros k v m. induction m as [|[k' v'] m IH]; [left; reflexivity|].
    cbn [put]. destruct (k <? k'); [left; reflexivity|].
    destruct (k =? k'); [left; reflexivity|right; exact IH].
  Qed.

  Lemma lookup_lt_some : forall bound (m : store V) k v, lookup_lt bound m = Some (k, v) ->
    In (k, v) m /\ k < bound /\ (forall k' v', In (k', v') m -> k' < bound -> k' <= k).
  Proof.
    intros bound m. induction m as [|[k0 v0] m IH]; intros k v H; [discriminate|].
    cbn [lookup_lt] in H. destruct (k0 <? bound) eqn:Hb.
    - destruct (lookup_lt bound m) as [[k1 v1]|] eqn:Hr.
      + destruct (IH _ _ eq_refl) as (Hin & Hlt & Hmax). destruct (k1 <? k0) eqn:Hc.
        * injection H as <- <-. split; [left; reflexivity|]. split; [lia|].
          intros k' v' [Hx|Hx] Hk'; [injection Hx as <- <-; lia|]. specialize (Hmax _ _ Hx Hk'). lia.
        * injection H as <- <-. split; [right; exact Hin|]. split; [exact Hlt|].
          intros k' v' [Hx|Hx] Hk'; [injection Hx as <- <-; lia|]. apply (Hmax _ _ Hx Hk').
      + injection H as <- <-. split; [left; reflexivity|]. split; [lia|].
        intros k' v' [Hx|Hx] Hk'; [injection Hx as <- <-; lia|].
        exfalso. clear IH. induction m as [|[k2 v2] m IHm]; [destruct Hx|].
        cbn [lookup_lt] in Hr. destruct Hx as [Hx|Hx].
        -- injection Hx as -> ->. assert (Hk2 : k' <? bound = true) by lia. rewrite Hk2 in Hr.
           destruct (lookup_lt bound m) as [[k3 v3]|]; [destruct (k3 <? k'); discriminate|discriminate].
        -- apply IHm; [|exact Hx]. destruct (k2 <? bound).
           ++ destruct (lookup_lt bound m) as [[k3 v3]|]; [destruct (k3 <? k2); discriminate|discriminate].
           ++ exact Hr.
    - destruct (IH _ _ H) as (Hin & Hlt & Hmax). split; [right; exact Hin|]. split; [exact Hlt|].
      intros k' v' [Hx|Hx] Hk'; [injection Hx as <- <-; lia|]. apply (Hmax _ _ Hx Hk').
  Qed.

  Lemma lookup_lt_none : forall bound (m : store V) k v, lookup_lt bound m = None -> In (k, v) m -> bound <= k.
  Proof.
    intros bound m. induction m as [|[k0 v0] m IH]; intros k v H Hin; [destruct Hin|].
    cbn [lookup_lt] in H. destruct (k0 <? bound) eqn:Hb.
    - destruct (lookup_lt bound m) as [[k1 v1]|]; [destruct (k1 <? k0); discriminate|discriminate].
    - destruct Hin as [Hx|Hx]; [injection Hx as <- <-; lia|]. apply (IH _ _ H Hx).
  Qed.
End StoreFacts.

Definition ents_store (l : list entry) : store entry := map (fun e => (e_idx e, e)) l.

Lemma ents_store_app : forall l1 l2, ents_store (l1 ++ l2) = ents_store l1 ++ ents_store l2.
Proof. intros. unfold ents_store. apply map_app. Qed.

Lemma first_index_ents : forall e l, first_index (ents_store (e :: l)) = e_idx e.
Proof. reflexivity. Qed.

Lemma last_index_ents_in : forall l, l <> [] -> exists e, In e l /\ last_index (ents_store l) = e_idx e.
Proof.
  induction l as [|e l IH]; intros H; [congruence|].
  destruct l as [|e' l].
  - exists e. split; [left; reflexivity|reflexivity].
  - destruct IH as (x & Hx & Hl); [discriminate|]. exists x. split; [right; exact Hx|].
    cbn [ents_store map last_index] in *. exact Hl.
Qed.

Lemma last_index_max : forall l, sorted l -> forall e, In e l -> e_idx e <= last_index (ents_store l).
Proof.
  induction l as [|a l IH]; intros Hs e Hin; [destruct Hin|].
  apply sorted_cons_inv in Hs. destruct Hs as [Hs Hf].
  destruct l as [|b l].
  - destruct Hin as [<-|[]]. cbn. lia.
  - assert (Hl : last_index (ents_store (a :: b :: l)) = last_index (ents_store (b :: l))) by reflexivity.
    rewrite Hl. destruct Hin as [<-|Hin].
    + rewrite Forall_forall in Hf. specialize (Hf b (or_introl eq_refl)).
      specialize (IH Hs b (or_introl eq_refl)). lia.
    + apply IH; assumption.
Qed.

Lemma range_all : forall l, sorted l -> l <> [] ->
  range (first_index (ents_store l)) (last_index (ents_store l) + 1) (ents_store l) = ents_store l.
Proof.
  intros l Hs Hne. unfold range. apply filter_all. intros [k v] Hin. cbn [fst].
  unfold ents_store in Hin. apply in_map_iff in Hin. destruct Hin as (e & He & Hin). injection He as <- <-.
  pose proof (last_index_max l Hs e Hin) as Hmax.
  destruct l as [|a l]; [congruence|]. rewrite first_index_ents.
  apply sorted_cons_inv in Hs. destruct Hs as [_ Hf]. rewrite Forall_forall in Hf.
  destruct Hin as [<-|Hin]; [lia|]. specialize (Hf e Hin). lia.
Qed.

Lemma range_from : forall e l, sorted (e :: l) ->
  map snd (range (e_idx e) (last_index (ents_store (e :: l)) + 1) (ents_store (e :: l))) = e :: l.
Proof.
  intros e l Hs. rewrite <- (first_index_ents e l) at 1. rewrite range_all; [|exact Hs|discriminate].
  unfold ents_store. rewrite map_map. cbn [snd]. apply map_id.
Qed.

Section StoreDel.
  Context {V : Type}.
  Lemma del_absent : forall k (m : store V), Forall (fun kv => k < fst kv) m -> del k m = m.
  Proof.
    intros k m H. unfold del. apply filter_all. intros x Hx. rewrite Forall_forall in H.
    specialize (H x Hx). lia.
  Qed.
  Lemma del_head : forall k (v : V) m, Forall (fun kv => k < fst kv) m -> del k ((k, v) :: m) = m.
  Proof.
    intros k v m H. unfold del. cbn [filter fst]. rewrite N.eqb_refl. cbn [negb]. apply (del_absent k m H).
  Qed.
End StoreDel.

(* the old prefix / new suffix of the stored entries w.r.t. the horizon *)
Fixpoint old_prefix (hz : Z) (l : list entry) : list entry :=
  match l with [] => [] | e :: r => if (hz <? e_ts e)%Z then [] else e :: old_prefix hz r end.
Fixpoint new_suffix (hz : Z) (l : list entry) : list entry :=
  match l with [] => [] | e :: r => if (hz <? e_ts e)%Z then e :: r else new_suffix hz r end.

Lemma old_new_split : forall hz l, l = old_prefix hz l ++ new_suffix hz l.
Proof.
  intros hz l. induction l as [|e l IH]; [reflexivity|]. cbn [old_prefix new_suffix].
  destruct (hz <? e_ts e)%Z; [reflexivity|]. cbn [app]. f_equal. exact IH.
Qed.
Lemma old_prefix_old : forall hz l e, In e (old_prefix hz l) -> (e_ts e <= hz)%Z.
Proof.
  intros hz l. induction l as [|a l IH]; intros e H; [destruct H|]. cbn [old_prefix] in H.
  destruct (hz <? e_ts a)%Z eqn:Hc; [destruct H|]. destruct H as [<-|H]; [lia|apply IH; exact H].
Qed.
Lemma new_suffix_head_new : forall hz l e r, new_suffix hz l = e :: r -> (hz < e_ts e)%Z.
Proof.
  intros hz l. induction l as [|a l IH]; intros e r H; [discriminate|]. cbn [new_suffix] in H.
  destruct (hz <? e_ts a)%Z eqn:Hc; [injection H as <- <-; lia|]. apply (IH _ _ H).
Qed.

(* ================================================================================== *)
(* the machine                                                                          *)
(* ================================================================================== *)
Section Proofs.
  Variables S O B : Type.
  Variable init : S.
  Variable apply : S -> entry -> S * list O.
  Variable marshal : S -> N -> B.
  Variable unmarshal : B -> option (S * N).
  Variable exp_of : S -> N.
  Variable rev_of : S -> N.

  (* C03 provides this for the IRC server (round trip of Marshal/Unmarshal) *)
  Hypothesis roundtrip : forall s k, unmarshal (marshal s k) = Some (s, k).
  (* only a Config message that parses and follows the revision in force changes Config.SessionExpiration *)
  Hypothesis exp_frame : forall s e, sets_exp (rev_of s) e = false -> exp_of (fst (apply s e)) = exp_of s.
  (* config.DefaultConfig.SessionExpiration is the 10 minutes Snapshot assumes when the FSM copy is 0 *)
  Hypothesis exp_init : eff_exp (exp_of init) = ten_minutes.
  (* the tree carries the D3 and D15 repairs (D18: either repaired or excluded by schedule_ok) *)
  Variable vr : variant.
  Hypothesis Hd3 : fix_d3 vr = true.
  Hypothesis Hd15 : fix_d15 vr = true.

  Notation rs := (run_state S O apply).
  Notation ro := (run_out S O apply).
  Notation ae := (apply_entry S O B apply exp_of rev_of).
  Notation snapf := (fsm_snapshot S O B init apply marshal unmarshal exp_of rev_of).
  Notation restf := (fsm_restore S O B apply unmarshal exp_of rev_of).
  Notation stepf := (do_step S O B init apply marshal unmarshal exp_of rev_of).
  Notation Fsm := (fsm S O B).
  Notation World := (world S O B).

  Lemma rs_app : forall l1 l2 s, rs s (l1 ++ l2) = rs (rs s l1) l2.
  Proof. induction l1 as [|e l1 IH]; intros l2 s; [reflexivity|]. cbn [app run_state]. apply IH. Qed.

  Lemma ro_app : forall l1 l2 s, ro s (l1 ++ l2) = ro s l1 ++ ro (rs s l1) l2.
  Proof.
    induction l1 as [|e l1 IH]; intros l2 s; [reflexivity|]. cbn [app run_out run_state].
    destruct (apply s e) as [s' o] eqn:Ha. cbn [fst]. destruct o; rewrite IH; reflexivity.
  Qed.

  Lemma ro_keys : forall l s kv, In kv (ro s l) -> exists e, In e l /\ e_idx e = fst kv.
  Proof.
    induction l as [|e l IH]; intros s kv H; [destruct H|]. cbn [run_out] in H.
    destruct (apply s e) as [s' o]. destruct o.
    - destruct (IH _ _ H) as (x & Hx & Hk). exists x. split; [right; exact Hx|exact Hk].
    - destruct H as [<-|H]; [exists e; split; [left; reflexivity|reflexivity]|].
      destruct (IH _ _ H) as (x & Hx & Hk). exists x. split; [right; exact Hx|exact Hk].
  Qed.

  Lemma ro_keys_gt : forall l s k, Forall (fun x => k < e_idx x) l -> Forall (fun kv => k < fst kv) (ro s l).
  Proof.
    intros l s k H. rewrite Forall_forall in *. intros kv Hkv. destruct (ro_keys _ _ _ Hkv) as (e & He & <-).
    apply H. exact He.
  Qed.
  Lemma ro_keys_lt : forall l s k, Forall (fun x => e_idx x < k) l -> Forall (fun kv => fst kv < k) (ro s l).
  Proof.
    intros l s k H. rewrite Forall_forall in *. intros kv Hkv. destruct (ro_keys _ _ _ Hkv) as (e & He & <-).
    apply H. exact He.
  Qed.
  Lemma ents_keys_gt : forall l k, Forall (fun x => k < e_idx x) l -> Forall (fun kv : N * entry => k < fst kv) (ents_store l).
  Proof.
    intros l k H. unfold ents_store. rewrite Forall_map. cbn [fst]. exact H.
  Qed.
  Lemma ents_keys_lt : forall l k, Forall (fun x => e_idx x < k) l -> Forall (fun kv : N * entry => fst kv < k) (ents_store l).
  Proof.
    intros l k H. unfold ents_store. rewrite Forall_map. cbn [fst]. exact H.
  Qed.

  (* ---- Apply on stores whose keys are all smaller: append ------------------------- *)
  Lemma ae_snoc : forall irc out m d s e, stored_kind e = true ->
    Forall (fun kv => fst kv < e_idx e) irc -> Forall (fun kv => fst kv < e_idx e) out ->
    ae (mkFsm S O B irc out m d s) e =
    mkFsm S O B (irc ++ [(e_idx e, e)]) (out ++ ro s [e]) m
          (if sets_exp (rev_of s) e then exp_of (fst (apply s e)) else d) (fst (apply s e)).
  Proof.
    intros irc out m d s e Hk Hi Ho. unfold apply_entry. rewrite Hk. cbn [server ircstore outstore lss expdur run_out].
    destruct (apply s e) as [s' o]. cbn [fst]. rewrite (put_snoc _ _ _ Hi). destruct o.
    - rewrite app_nil_r. reflexivity.
    - rewrite (put_snoc _ _ _ Ho). reflexivity.
  Qed.

  Lemma ae_all : forall l a m d s0, (forall e, In e l -> stored_kind e = true) -> sorted (a ++ l) ->
    exists d', fold_left ae l (mkFsm S O B (ents_store a) (ro s0 a) m d (rs s0 a)) =
               mkFsm S O B (ents_store (a ++ l)) (ro s0 (a ++ l)) m d' (rs s0 (a ++ l)) /\
               (eff_exp d = eff_exp (exp_of (rs s0 a)) -> eff_exp d' = eff_exp (exp_of (rs s0 (a ++ l)))).
  Proof.
    induction l as [|e l IH]; intros a m d s0 Hk Hs.
    - exists d. rewrite app_nil_r. split; [reflexivity|tauto].
    - cbn [fold_left]. destruct (sorted_app_inv _ _ Hs) as (Hsa & Hsl & Hlt).
      assert (Hfa : Forall (fun x => e_idx x < e_idx e) a).
      { rewrite Forall_forall. intros x Hx. apply Hlt; [exact Hx|left; reflexivity]. }
      rewrite ae_snoc; [|apply Hk; left; reflexivity|apply ents_keys_lt; exact Hfa|apply ro_keys_lt; exact Hfa].
      assert (Happ : a ++ e :: l = (a ++ [e]) ++ l) by (rewrite <- app_assoc; reflexivity).
      assert (Hrs : fst (apply (rs s0 a) e) = rs s0 (a ++ [e])) by (rewrite rs_app; reflexivity).
      rewrite Hrs. replace (ents_store a ++ [(e_idx e, e)]) with (ents_store (a ++ [e]))
        by (rewrite ents_store_app; reflexivity).
      replace (ro s0 a ++ ro (rs s0 a) [e]) with (ro s0 (a ++ [e])) by (rewrite ro_app; reflexivity).
      rewrite Happ.
      destruct (IH (a ++ [e]) m (if sets_exp (rev_of (rs s0 a)) e then exp_of (rs s0 (a ++ [e])) else d) s0) as (d' & Hfold & Hexp).
      + intros x Hx. apply Hk. right. exact Hx.
      + rewrite <- Happ. exact Hs.
      + exists d'. split; [exact Hfold|]. intros Hd. apply Hexp.
        destruct (sets_exp (rev_of (rs s0 a)) e) eqn:He; [reflexivity|].
        rewrite <- Hrs. rewrite exp_frame; [exact Hd|exact He].
  Qed.

  (* ---- the fold loop of Snapshot (repaired variants) -------------------------------- *)
  Lemma snap_loop_spec : forall hz l s d, sorted l ->
    snap_loop S O apply exp_of rev_of vr hz (ents_store l) (mkLoop S O s (ents_store l) (ro s l) d) =
    (mkLoop S O (rs s (old_prefix hz l)) (ents_store (new_suffix hz l))
            (ro (rs s (old_prefix hz l)) (new_suffix hz l)) d,
     match new_suffix hz l with [] => None | e :: _ => Some (e_idx e) end).
  Proof.
    intros hz l. induction l as [|e l IH]; intros s d Hs; [reflexivity|].
    apply sorted_cons_inv in Hs. destruct Hs as [Hs Hf].
    cbn [ents_store map snap_loop old_prefix new_suffix]. destruct (hz <? e_ts e)%Z eqn:Hc.
    - reflexivity.
    - cbn [l_tmp l_irc l_out l_exp run_state]. rewrite Hd15.
      change ((e_idx e, e) :: map (fun e0 : entry => (e_idx e0, e0)) l) with ((e_idx e, e) :: ents_store l).
      rewrite (del_head _ _ _ (ents_keys_gt _ _ Hf)).
      assert (Hdel : del (e_idx e) (ro s (e :: l)) = ro (fst (apply s e)) l).
      { cbn [run_out]. destruct (apply s e) as [s' o]. cbn [fst]. destruct o.
        - apply del_absent. apply ro_keys_gt. exact Hf.
        - apply del_head. apply ro_keys_gt. exact Hf. }
      rewrite Hdel. apply IH. exact Hs.
  Qed.
  (* ---- the invariant --------------------------------------------------------------- *)
  Definition lo (base : N) (l : list entry) : list entry := filter (le_idx base) (cmds l).
  Definition hi (base : N) (l : list entry) : list entry := filter (gt_idx base) (cmds l).
  (* the state a plain replay has after every entry of the log with index <= k *)
  Definition state_upto (L : list entry) (k : N) : S := rs init (cmds (filter (le_idx k) L)).

  Definition log_ok (L : list entry) : Prop := sorted L /\ Forall (fun e => 1 <= e_idx e) L.

  Definition pers_ok (L : list entry) (p : persisted B) : Prop :=
    (p_applied p <= List.length L)%nat /\
    exists lii, unmarshal (p_state p) = Some (state_upto L lii, lii) /\
                p_entries p = hi lii (firstn (p_applied p) L) /\
                (forall e, In e (skipn (p_applied p) L) -> lii < e_idx e).

  Record Inv (L : list entry) (w : World) (base : N) : Prop := mkInv {
    inv_app : (w_applied w <= List.length L)%nat;
    inv_irc : ircstore (w_fsm w) = ents_store (hi base (firstn (w_applied w) L));
    inv_out : outstore (w_fsm w) =
              ro (rs init (lo base (firstn (w_applied w) L))) (hi base (firstn (w_applied w) L));
    inv_srv : server (w_fsm w) = rs init (cmds (firstn (w_applied w) L));
    inv_exp : eff_exp (expdur (w_fsm w)) = eff_exp (exp_of (server (w_fsm w)));
    inv_lss : forall k b, In (k, b) (lss (w_fsm w)) -> unmarshal b = Some (state_upto L k, k);
    inv_base : base = 0 \/ exists b, In (base, b) (lss (w_fsm w));
    inv_bnd : forall e, In e (skipn (w_applied w) L) -> base < e_idx e;
    inv_pers : forall p, In p (w_persisted w) -> pers_ok L p
  }.

  Lemma cmds_sorted : forall l, sorted l -> sorted (cmds l).
  Proof. intros. apply sorted_filter. assumption. Qed.
  Lemma cmds_app : forall a b, cmds (a ++ b) = cmds a ++ cmds b.
  Proof. intros. apply filter_app. Qed.
  Lemma lo_hi_split : forall b l, sorted l -> cmds l = lo b l ++ hi b l.
  Proof. intros b l H. apply split_at. apply cmds_sorted. exact H. Qed.
  Lemma in_lo : forall b l x, In x (lo b l) -> In x l /\ e_idx x <= b /\ stored_kind x = true.
  Proof.
    intros b l x H. unfold lo in H. apply filter_In in H. destruct H as [H1 H2].
    unfold cmds in H1. apply filter_In in H1. unfold le_idx in H2. split; [tauto|]. split; [lia|tauto].
  Qed.
  Lemma in_hi : forall b l x, In x (hi b l) -> In x l /\ b < e_idx x /\ stored_kind x = true.
  Proof.
    intros b l x H. unfold hi in H. apply filter_In in H. destruct H as [H1 H2].
    unfold cmds in H1. apply filter_In in H1. unfold gt_idx in H2. split; [tauto|]. split; [lia|tauto].
  Qed.
  Lemma hi_sorted : forall b l, sorted l -> sorted (hi b l).
  Proof. intros. apply sorted_filter. apply cmds_sorted. assumption. Qed.

  Lemma state_upto_pre : forall L n k, sorted L -> (forall e, In e (skipn n L) -> k < e_idx e) ->
    state_upto L k = rs init (lo k (firstn n L)).
  Proof.
    intros L n k Hs Hb. unfold state_upto, lo. f_equal.
    rewrite <- (firstn_skipn n L) at 1. rewrite filter_app.
    rewrite (filter_none _ (le_idx k) (skipn n L)).
    - rewrite app_nil_r. unfold cmds. apply filter_filter_comm.
    - intros x Hx. specialize (Hb x Hx). unfold le_idx. lia.
  Qed.

  Lemma pre_lt_post : forall L n a b, sorted L -> In a (firstn n L) -> In b (skipn n L) -> e_idx a < e_idx b.
  Proof. intros L n a b Hs. destruct (firstn_skipn_sorted n L Hs) as (_ & _ & H). apply H. Qed.

  Lemma in_firstn : forall (A : Type) n (l : list A) x, In x (firstn n l) -> In x l.
  Proof. intros A n l x H. rewrite <- (firstn_skipn n l). apply in_or_app. left. exact H. Qed.

  (* the state under any key between base and the first stored index is the folded state *)
  Lemma key_state : forall L n base h0 hr k', sorted L ->
    hi base (firstn n L) = h0 :: hr -> base <= k' -> k' < e_idx h0 ->
    state_upto L k' = rs init (lo base (firstn n L)).
  Proof.
    intros L n base h0 hr k' Hs Hhi Hb Hk.
    assert (Hh0 : In h0 (firstn n L)).
    { assert (H : In h0 (hi base (firstn n L))) by (rewrite Hhi; left; reflexivity). apply in_hi in H. tauto. }
    rewrite (state_upto_pre L n k' Hs).
    2:{ intros e He. pose proof (pre_lt_post L n h0 e Hs Hh0 He). lia. }
    f_equal. unfold lo at 1.
    assert (Hsp : sorted (firstn n L)) by (apply (firstn_skipn_sorted n L Hs)).
    rewrite (lo_hi_split base _ Hsp). rewrite filter_app.
    rewrite (filter_all _ (le_idx k') (lo base (firstn n L))).
    2:{ intros x Hx. apply in_lo in Hx. unfold le_idx. lia. }
    rewrite (filter_none _ (le_idx k') (hi base (firstn n L))).
    2:{ intros x Hx. rewrite Hhi in Hx. pose proof (hi_sorted base _ Hsp) as Hsh. rewrite Hhi in Hsh.
        apply sorted_cons_inv in Hsh. destruct Hsh as [_ Hf]. rewrite Forall_forall in Hf. unfold le_idx.
        destruct Hx as [<-|Hx]; [lia|]. specialize (Hf x Hx). lia. }
    apply app_nil_r.
  Qed.

  Lemma lo_zero : forall l, Forall (fun e => 1 <= e_idx e) l -> lo 0 l = [].
  Proof.
    intros l H. unfold lo. apply filter_none. intros x Hx. unfold cmds in Hx. apply filter_In in Hx.
    rewrite Forall_forall in H. specialize (H x (proj1 Hx)). unfold le_idx. lia.
  Qed.

  Lemma snap_base_inv : forall L n base h0 hr (m : store B), log_ok L ->
    hi base (firstn n L) = h0 :: hr ->
    (forall k b, In (k, b) m -> unmarshal b = Some (state_upto L k, k)) ->
    (base = 0 \/ exists b, In (base, b) m) ->
    exists m1, snap_base S B init unmarshal vr (e_idx h0) m = Some (rs init (lo base (firstn n L)), m1) /\
               (forall x, In x m1 -> In x m).
  Proof.
    intros L n base h0 hr m [Hs Hge] Hhi Hlss Hbase.
    assert (Hb0 : base < e_idx h0).
    { assert (H : In h0 (hi base (firstn n L))) by (rewrite Hhi; left; reflexivity). apply in_hi in H. tauto. }
    unfold snap_base. rewrite Hd3.
    destruct (lookup_lt (e_idx h0) m) as [[k' b']|] eqn:Hl.
    - destruct (lookup_lt_some _ _ _ _ Hl) as (Hin & Hlt & Hmax).
      assert (Hle : base <= k').
      { destruct Hbase as [->|[b Hb]]; [lia|]. apply (Hmax _ _ Hb Hb0). }
      rewrite (Hlss _ _ Hin). rewrite (key_state L n base h0 hr k' Hs Hhi Hle Hlt).
      exists [(k', b')]. split; [reflexivity|]. intros x [<-|[]]. exact Hin.
    - destruct Hbase as [->|[b Hb]].
      + rewrite lo_zero.
        * exists m. split; [reflexivity|tauto].
        * rewrite Forall_forall in *. intros x Hx. apply Hge. apply (in_firstn _ _ _ _ Hx).
      + pose proof (lookup_lt_none _ _ _ _ Hl Hb). lia.
  Qed.

  Lemma range_ents_all : forall l a b, (forall x, In x l -> a <= e_idx x /\ e_idx x < b) ->
    map snd (range a b (ents_store l)) = l.
  Proof.
    intros l a b H. unfold range. rewrite filter_all.
    - unfold ents_store. rewrite map_map. cbn [snd]. apply map_id.
    - intros [k v] Hin. unfold ents_store in Hin. apply in_map_iff in Hin. destruct Hin as (e & He & Hin).
      injection He as <- <-. cbn [fst]. specialize (H e Hin). lia.
  Qed.

  (* Snapshot as a closed formula on a well-formed FSM state *)
  Lemma snapf_compute : forall t hl (m m1 : store B) d srv s0, sorted hl -> hl <> [] ->
    1 <= first_index (ents_store hl) ->
    snap_base S B init unmarshal vr (first_index (ents_store hl)) m = Some (s0, m1) ->
    snapf vr t (mkFsm S O B (ents_store hl) (ro s0 hl) m d srv) =
    let hz := horizon d t in
    let old := old_prefix hz hl in
    let new := new_suffix hz hl in
    let key := match new with [] => last_index (ents_store hl) | e :: _ => e_idx e - 1 end in
    let st := marshal (rs s0 old) key in
    Some (mkFsm S O B (ents_store new) (ro (rs s0 old) new) (put key st m1) d srv,
          mkSnap B (match new with [] => first_index (ents_store hl) | e :: _ => e_idx e end)
                 (last_index (ents_store hl)) st).
  Proof.
    intros t hl m m1 d srv s0 Hs Hne Hge Hbase. unfold fsm_snapshot.
    cbn [ircstore outstore lss expdur server].
    assert (H1 : first_index (ents_store hl) <? 1 = false) by lia. rewrite H1. rewrite Hbase.
    rewrite (range_all hl Hs Hne). rewrite (snap_loop_spec (horizon d t) hl s0 d Hs).
    cbv zeta. cbn [l_tmp l_irc l_out l_exp]. rewrite Hd3.
    destruct (new_suffix (horizon d t) hl); reflexivity.
  Qed.
  (* ---- Apply preserves the invariant ------------------------------------------------- *)
  Lemma cmds_single : forall e, cmds [e] = if stored_kind e then [e] else [].
  Proof. intros e. unfold cmds. cbn [filter]. destruct (stored_kind e); reflexivity. Qed.

  Lemma apply_inv : forall L w base e, log_ok L -> Inv L w base -> nth_error L (w_applied w) = Some e ->
    Inv L (mkWorld S O B (ae (w_fsm w) e) (Datatypes.S (w_applied w)) (w_persisted w)) base.
  Proof.
    intros L [[irc out m d s] n ps] base e [Hs Hge] HI Hnth.
    destruct HI as [Happ Hirc Hout Hsrv Hexp Hlss Hbase Hbnd Hpers].
    cbn [w_fsm w_applied w_persisted ircstore outstore lss expdur server] in *.
    pose proof (firstn_snoc _ L n e Hnth) as Hfn.
    assert (Hein : In e (skipn n L)) by (apply nth_error_skipn_in; exact Hnth).
    assert (Hbe : base < e_idx e) by (apply Hbnd; exact Hein).
    assert (Hsp : sorted (firstn n L)) by (apply (firstn_skipn_sorted n L Hs)).
    assert (Hlen : (Datatypes.S n <= List.length L)%nat).
    { assert (Hn : (n < List.length L)%nat) by (apply nth_error_Some; congruence). lia. }
    assert (Hbnd' : forall x, In x (skipn (Datatypes.S n) L) -> base < e_idx x).
    { intros x Hx. apply Hbnd. apply skipn_S_subset. exact Hx. }
    destruct (stored_kind e) eqn:Hk.
    - (* a command: stored, applied *)
      assert (Hhi' : hi base (firstn (Datatypes.S n) L) = hi base (firstn n L) ++ [e]).
      { unfold hi. rewrite Hfn, cmds_app, cmds_single, Hk, filter_app. cbn [filter]. unfold gt_idx at 2.
        assert (Hc : base <? e_idx e = true) by lia. rewrite Hc. reflexivity. }
      assert (Hlo' : lo base (firstn (Datatypes.S n) L) = lo base (firstn n L)).
      { unfold lo. rewrite Hfn, cmds_app, cmds_single, Hk, filter_app. cbn [filter]. unfold le_idx at 2.
        assert (Hc : e_idx e <=? base = false) by lia. rewrite Hc. apply app_nil_r. }
      assert (Hlt : Forall (fun x => e_idx x < e_idx e) (hi base (firstn n L))).
      { rewrite Forall_forall. intros x Hx. apply in_hi in Hx. apply (pre_lt_post L n x e Hs); tauto. }
      assert (Hsrv2 : s = rs (rs init (lo base (firstn n L))) (hi base (firstn n L))).
      { rewrite <- rs_app, <- (lo_hi_split base _ Hsp). exact Hsrv. }
      subst irc out. rewrite ae_snoc; [|exact Hk|apply ents_keys_lt; exact Hlt|apply ro_keys_lt; exact Hlt].
      constructor; cbn [w_fsm w_applied w_persisted ircstore outstore lss expdur server].
      + exact Hlen.
      + rewrite Hhi', ents_store_app. reflexivity.
      + rewrite Hhi', Hlo', ro_app, <- Hsrv2. reflexivity.
      + rewrite Hfn, cmds_app, cmds_single, Hk, rs_app, <- Hsrv. reflexivity.
      + destruct (sets_exp (rev_of s) e) eqn:He; [reflexivity|]. rewrite exp_frame; [exact Hexp|exact He].
      + exact Hlss.
      + exact Hbase.
      + exact Hbnd'.
      + exact Hpers.
    - (* raft-internal: skipped *)
      assert (Hae : ae (mkFsm S O B irc out m d s) e = mkFsm S O B irc out m d s).
      { unfold apply_entry. rewrite Hk. reflexivity. }
      rewrite Hae.
      assert (Hc' : cmds (firstn (Datatypes.S n) L) = cmds (firstn n L)).
      { rewrite Hfn, cmds_app, cmds_single, Hk. apply app_nil_r. }
      constructor; cbn [w_fsm w_applied w_persisted ircstore outstore lss expdur server];
        unfold hi, lo in *; rewrite ?Hc'; assumption.
  Qed.
  (* ---- Snapshot preserves the invariant ------------------------------------------------ *)
  Lemma hi_lo_of_split : forall l A Bl b', cmds l = A ++ Bl ->
    (forall x, In x A -> e_idx x <= b') -> (forall x, In x Bl -> b' < e_idx x) ->
    hi b' l = Bl /\ lo b' l = A.
  Proof.
    intros l A Bl b' H HA HB. unfold hi, lo. rewrite H, !filter_app. split.
    - rewrite (filter_none _ (gt_idx b') A), (filter_all _ (gt_idx b') Bl); [reflexivity| |].
      + intros x Hx. specialize (HB x Hx). unfold gt_idx. lia.
      + intros x Hx. specialize (HA x Hx). unfold gt_idx. lia.
    - rewrite (filter_all _ (le_idx b') A), (filter_none _ (le_idx b') Bl); [apply app_nil_r| |].
      + intros x Hx. specialize (HB x Hx). unfold le_idx. lia.
      + intros x Hx. specialize (HA x Hx). unfold le_idx. lia.
  Qed.

  Lemma snapshot_post : forall L n ps base old new key (m m1 : store B) d srv,
    log_ok L -> Inv L (mkWorld S O B (mkFsm S O B (ents_store (hi base (firstn n L)))
                                       (ro (rs init (lo base (firstn n L))) (hi base (firstn n L))) m d srv) n ps) base ->
    hi base (firstn n L) = old ++ new ->
    (forall x, In x (lo base (firstn n L) ++ old) -> e_idx x <= key) ->
    (forall x, In x new -> key < e_idx x) ->
    (forall e, In e (skipn n L) -> key < e_idx e) ->
    (forall x, In x m1 -> In x m) ->
    let s1 := rs (rs init (lo base (firstn n L))) old in
    hi key (firstn n L) = new /\ lo key (firstn n L) = lo base (firstn n L) ++ old /\
    unmarshal (marshal s1 key) = Some (state_upto L key, key) /\
    Inv L (mkWorld S O B (mkFsm S O B (ents_store new) (ro s1 new) (put key (marshal s1 key) m1) d srv) n ps) key.
  Proof.
    intros L n ps base old new key m m1 d srv [Hs Hge] HI Hsplit HA HB Hpost Hsub s1.
    destruct HI as [Happ Hirc Hout Hsrv Hexp Hlss Hbase Hbnd Hpers].
    cbn [w_fsm w_applied w_persisted ircstore outstore lss expdur server] in *.
    assert (Hsp : sorted (firstn n L)) by (apply (firstn_skipn_sorted n L Hs)).
    assert (Hc : cmds (firstn n L) = (lo base (firstn n L) ++ old) ++ new).
    { rewrite <- app_assoc, <- Hsplit. apply lo_hi_split. exact Hsp. }
    destruct (hi_lo_of_split _ _ _ key Hc HA HB) as [Hhi' Hlo'].
    assert (Hst : unmarshal (marshal s1 key) = Some (state_upto L key, key)).
    { rewrite roundtrip. rewrite (state_upto_pre L n key Hs Hpost), Hlo', rs_app. reflexivity. }
    split; [exact Hhi'|]. split; [exact Hlo'|]. split; [exact Hst|].
    constructor; cbn [w_fsm w_applied w_persisted ircstore outstore lss expdur server].
    - exact Happ.
    - rewrite Hhi'. reflexivity.
    - rewrite Hhi', Hlo', rs_app. reflexivity.
    - exact Hsrv.
    - exact Hexp.
    - intros k b Hin. apply in_put in Hin. destruct Hin as [Hin|Hin].
      + injection Hin as -> ->. exact Hst.
      + apply Hlss. apply Hsub. exact Hin.
    - right. exists (marshal s1 key). apply put_has_key.
    - exact Hpost.
    - exact Hpers.
  Qed.

  Lemma snapshot_inv : forall L w base t f' sn, log_ok L -> Inv L w base ->
    snapf vr t (w_fsm w) = Some (f', sn) ->
    exists base',
      Inv L (mkWorld S O B f' (w_applied w) (w_persisted w)) base' /\
      pers_ok L (persist S O B f' sn (w_applied w)) /\
      hi base' (firstn (w_applied w) L) =
        new_suffix (horizon (expdur (w_fsm w)) t) (hi base (firstn (w_applied w) L)) /\
      lo base' (firstn (w_applied w) L) =
        lo base (firstn (w_applied w) L) ++
        old_prefix (horizon (expdur (w_fsm w)) t) (hi base (firstn (w_applied w) L)) /\
      ircstore f' = ents_store (hi base' (firstn (w_applied w) L)) /\
      unmarshal (sn_state sn) = Some (rs init (lo base' (firstn (w_applied w) L)), base') /\
      (exists xl, In xl (firstn (w_applied w) L) /\ sn_last sn = e_idx xl).
  Proof.
    intros L [[irc out m d s] n ps] base t f' sn HL HI Hsnap.
    pose proof HI as HI0.
    destruct HI as [Happ Hirc Hout Hsrv Hexp Hlss Hbase Hbnd Hpers].
    cbn [w_fsm w_applied w_persisted ircstore outstore lss expdur server] in *.
    destruct HL as [Hs Hge]. subst irc out.
    assert (Hsp : sorted (firstn n L)) by (apply (firstn_skipn_sorted n L Hs)).
    destruct (hi base (firstn n L)) as [|h0 hr] eqn:Hhi.
    { assert (E : snapf vr t (mkFsm S O B (ents_store []) (ro (rs init (lo base (firstn n L))) []) m d s) = None)
        by reflexivity.
      rewrite E in Hsnap. discriminate. }
    assert (Hsh : sorted (h0 :: hr)) by (rewrite <- Hhi; apply hi_sorted; exact Hsp).
    assert (Hh0 : In h0 (firstn n L) /\ base < e_idx h0 /\ stored_kind h0 = true).
    { apply in_hi. rewrite Hhi. left. reflexivity. }
    assert (Hin_hl : forall x, In x (h0 :: hr) -> In x (firstn n L) /\ base < e_idx x).
    { intros x Hx. rewrite <- Hhi in Hx. apply in_hi in Hx. tauto. }
    assert (Hge0 : 1 <= e_idx h0).
    { rewrite Forall_forall in Hge. apply Hge. apply (in_firstn _ n). tauto. }
    destruct (snap_base_inv L n base h0 hr m (conj Hs Hge) Hhi Hlss Hbase) as (m1 & Hb & Hsub).
    rewrite (snapf_compute t (h0 :: hr) m m1 d s _ Hsh) in Hsnap; [|discriminate|exact Hge0|exact Hb].
    cbv zeta in Hsnap.
    remember (horizon d t) as hz eqn:Hhz in *.
    remember (old_prefix hz (h0 :: hr)) as ol eqn:Hol in *.
    remember (new_suffix hz (h0 :: hr)) as nw eqn:Hnw in *.
    remember (last_index (ents_store (h0 :: hr))) as lastk eqn:Hlastk in *.
    pose proof (old_new_split hz (h0 :: hr)) as Hon. rewrite <- Hol, <- Hnw in Hon.
    assert (Hhead : forall x, In x (h0 :: hr) -> e_idx h0 <= e_idx x).
    { intros x [<-|Hx]; [lia|]. apply sorted_cons_inv in Hsh. destruct Hsh as [_ Hf].
      rewrite Forall_forall in Hf. specialize (Hf x Hx). lia. }
    assert (Hlast : forall x, In x (h0 :: hr) -> e_idx x <= lastk).
    { intros x Hx. rewrite Hlastk. apply last_index_max; assumption. }
    rewrite <- Hhi in HI0.
    destruct nw as [|e1 r1]; injection Hsnap as <- <-.
    - (* every stored entry is older than the horizon: all folded *)
      rewrite app_nil_r in Hon.
      destruct (last_index_ents_in (h0 :: hr)) as (xl & Hxl & Hkl); [discriminate|].
      assert (Hpost : forall e, In e (skipn n L) -> lastk < e_idx e).
      { intros e He. rewrite Hlastk, Hkl. apply (pre_lt_post L n xl e Hs); [|exact He].
        apply Hin_hl. exact Hxl. }
      destruct (snapshot_post L n ps base ol [] lastk m m1 d s
                  (conj Hs Hge) HI0) as (Hhi' & Hlo' & Hst & HI').
      + rewrite Hhi, app_nil_r. exact Hon.
      + intros x Hx. apply in_app_or in Hx. destruct Hx as [Hx|Hx].
        * apply in_lo in Hx. specialize (Hlast h0 (or_introl eq_refl)). lia.
        * rewrite <- Hon in Hx. apply Hlast. exact Hx.
      + intros x [].
      + exact Hpost.
      + exact Hsub.
      + exists lastk. cbn [w_applied w_persisted w_fsm expdur] in *. rewrite Hhi in *.
        split; [exact HI'|]. split.
        * unfold pers_ok, persist. cbn [p_applied p_state p_entries sn_state sn_first sn_last ircstore].
          split; [exact Happ|]. exists lastk. split; [exact Hst|]. split; [|exact Hpost].
          rewrite Hhi'. reflexivity.
        * split; [exact Hhi'|]. split; [exact Hlo'|]. split; [|split].
          -- cbn [ircstore]. rewrite Hhi'. reflexivity.
          -- cbn [sn_state]. rewrite Hst. rewrite (state_upto_pre L n lastk Hs Hpost). reflexivity.
          -- exists xl. split; [apply Hin_hl; exact Hxl|]. cbn [sn_last]. rewrite Hlastk. exact Hkl.
    - (* e1 is the first entry newer than the horizon *)
      set (key := e_idx e1 - 1) in *.
      assert (He1 : In e1 (h0 :: hr)).
      { rewrite Hon. apply in_or_app. right. left. reflexivity. }
      assert (Hso : sorted (ol ++ e1 :: r1)) by (rewrite <- Hon; exact Hsh).
      destruct (sorted_app_inv _ _ Hso) as (_ & Hsn & Hlt).
      assert (Hge1 : 1 <= e_idx e1) by (specialize (Hhead e1 He1); lia).
      assert (Hnewgt : forall x, In x (e1 :: r1) -> key < e_idx x).
      { intros x [<-|Hx]; [unfold key; lia|]. apply sorted_cons_inv in Hsn. destruct Hsn as [_ Hf].
        rewrite Forall_forall in Hf. specialize (Hf x Hx). unfold key. lia. }
      assert (Hpost : forall e, In e (skipn n L) -> key < e_idx e).
      { intros e He. assert (e_idx e1 < e_idx e).
        { apply (pre_lt_post L n e1 e Hs); [|exact He]. apply Hin_hl. exact He1. }
        unfold key. lia. }
      destruct (snapshot_post L n ps base ol (e1 :: r1) key m m1 d s
                  (conj Hs Hge) HI0) as (Hhi' & Hlo' & Hst & HI').
      + rewrite Hhi. exact Hon.
      + intros x Hx. apply in_app_or in Hx. destruct Hx as [Hx|Hx].
        * apply in_lo in Hx. specialize (Hhead e1 He1). unfold key. lia.
        * specialize (Hlt x e1 Hx (or_introl eq_refl)). unfold key. lia.
      + exact Hnewgt.
      + exact Hpost.
      + exact Hsub.
      + exists key. cbn [w_applied w_persisted w_fsm expdur] in *. rewrite Hhi in *.
        split; [exact HI'|]. split.
        * unfold pers_ok, persist. cbn [p_applied p_state p_entries sn_state sn_first sn_last ircstore].
          split; [exact Happ|]. exists key. split; [exact Hst|]. split; [|exact Hpost].
          rewrite Hhi'. apply (range_ents_all (e1 :: r1)). intros x Hx. split.
          -- destruct Hx as [<-|Hx]; [lia|]. apply sorted_cons_inv in Hsn. destruct Hsn as [_ Hf].
             rewrite Forall_forall in Hf. specialize (Hf x Hx). lia.
          -- assert (In x (h0 :: hr)) by (rewrite Hon; apply in_or_app; right; exact Hx).
             specialize (Hlast x H). lia.
        * split; [exact Hhi'|]. split; [exact Hlo'|]. split; [|split].
          -- cbn [ircstore]. rewrite Hhi'. reflexivity.
          -- cbn [sn_state]. rewrite Hst. rewrite (state_upto_pre L n key Hs Hpost). reflexivity.
          -- destruct (last_index_ents_in (h0 :: hr)) as (xl & Hxl & Hkl); [discriminate|].
             exists xl. split; [apply Hin_hl; exact Hxl|]. cbn [sn_last]. rewrite Hlastk. exact Hkl.
  Qed.
  (* ---- Restore establishes the invariant ------------------------------------------------ *)
  Lemma restore_inv : forall L (f : Fsm) p ps, log_ok L -> pers_ok L p ->
    (forall k b, In (k, b) (lss f) -> unmarshal b = Some (state_upto L k, k)) ->
    (forall q, In q ps -> pers_ok L q) ->
    exists f' lii, restf vr f p = Some f' /\ Inv L (mkWorld S O B f' (p_applied p) ps) lii.
  Proof.
    intros L f p ps [Hs Hge] (Happ & lii & Hun & Hent & Hpost) Hlss Hps.
    unfold fsm_restore. rewrite Hun, Hent.
    assert (Hsp : sorted (firstn (p_applied p) L)) by (apply (firstn_skipn_sorted _ L Hs)).
    destruct (ae_all (hi lii (firstn (p_applied p) L)) [] (put lii (p_state p) (lss f)) (expdur f) (state_upto L lii))
      as (d' & Hf & _).
    { intros e He. apply in_hi in He. tauto. }
    { cbn [app]. apply hi_sorted. exact Hsp. }
    cbn [app ents_store map run_out run_state] in Hf. rewrite Hf.
    rewrite Hd15. cbn [ircstore outstore lss expdur server].
    eexists. exists lii. split; [reflexivity|].
    assert (Hs0 : state_upto L lii = rs init (lo lii (firstn (p_applied p) L))).
    { apply state_upto_pre; assumption. }
    constructor; cbn [w_fsm w_applied w_persisted ircstore outstore lss expdur server].
    - exact Happ.
    - reflexivity.
    - rewrite Hs0. reflexivity.
    - rewrite Hs0, <- rs_app, <- (lo_hi_split lii _ Hsp). reflexivity.
    - reflexivity.
    - intros k b Hin. apply in_put in Hin. destruct Hin as [Hin|Hin].
      + injection Hin as -> ->. exact Hun.
      + apply Hlss. exact Hin.
    - right. exists (p_state p). apply put_has_key.
    - exact Hpost.
    - exact Hps.
  Qed.

  Lemma inv_add_pers : forall L f n ps p base, Inv L (mkWorld S O B f n ps) base -> pers_ok L p ->
    Inv L (mkWorld S O B f n (p :: ps)) base.
  Proof.
    intros L f n ps p base [H1 H2 H3 H4 H5 H6 H7 H8 H9] Hp.
    constructor; cbn [w_fsm w_applied w_persisted] in *; try assumption.
    intros q [<-|Hq]; [exact Hp|apply H9; exact Hq].
  Qed.

  Lemma init_inv : forall L, log_ok L -> Inv L (world0 S O B init) 0.
  Proof.
    intros L [Hs Hge]. constructor; cbn [world0 fresh_fsm w_fsm w_applied w_persisted ircstore outstore lss expdur server firstn].
    - lia.
    - reflexivity.
    - reflexivity.
    - reflexivity.
    - rewrite exp_init. reflexivity.
    - intros k b [].
    - left. reflexivity.
    - intros e He. cbn [skipn] in He. rewrite Forall_forall in Hge. specialize (Hge e He). lia.
    - intros p [].
  Qed.

  (* raft keeps applying between Snapshot() and Persist(): the invariant (same cut) is kept, the applied prefix grows *)
  Lemma apply_n_inv : forall k L w base, log_ok L -> Inv L w base ->
    Inv L (apply_n S O B apply exp_of rev_of L k w) base /\
    w_persisted (apply_n S O B apply exp_of rev_of L k w) = w_persisted w /\
    exists extra, firstn (w_applied (apply_n S O B apply exp_of rev_of L k w)) L = firstn (w_applied w) L ++ extra /\
                  (forall e, In e extra -> In e (skipn (w_applied w) L)).
  Proof.
    induction k as [|k IH]; intros L w base HL HI.
    - cbn [apply_n]. split; [exact HI|]. split; [reflexivity|]. exists []. rewrite app_nil_r. split; [reflexivity|intros e []].
    - cbn [apply_n]. destruct (nth_error L (w_applied w)) as [e|] eqn:Hn.
      + pose proof (apply_inv L w base e HL HI Hn) as HI1.
        destruct (IH L _ base HL HI1) as (HI2 & Hps & extra & Hfn & Hex).
        cbn [w_applied w_persisted] in *.
        split; [exact HI2|]. split; [exact Hps|].
        exists (e :: extra). split.
        * rewrite Hfn, (firstn_snoc _ L _ e Hn), <- app_assoc. reflexivity.
        * intros x [<-|Hx]; [apply nth_error_skipn_in; exact Hn|]. apply skipn_S_subset. apply Hex. exact Hx.
      + split; [exact HI|]. split; [reflexivity|]. exists []. rewrite app_nil_r. split; [reflexivity|intros e []].
  Qed.

  (* Persist of an earlier snapshot object after more entries were applied writes the same content: the state
     message and the retained entries firstIndex..lastIndex as they were when Snapshot() ran *)
  Lemma persist_late : forall L w base t f' sn k, log_ok L -> Inv L w base ->
    snapf vr t (w_fsm w) = Some (f', sn) ->
    persist S O B (w_fsm (apply_n S O B apply exp_of rev_of L k (mkWorld S O B f' (w_applied w) (w_persisted w)))) sn (w_applied w) =
    persist S O B f' sn (w_applied w).
  Proof.
    intros L w base t f' sn k HL HI Hsn.
    destruct (snapshot_inv L w base t f' sn HL HI Hsn) as (base' & HI' & _ & _ & _ & Hirc' & _ & (xl & Hxl & Hlast)).
    destruct (apply_n_inv k L _ base' HL HI') as (HI2 & _ & extra & Hfn & Hex).
    cbn [w_applied] in Hfn, Hex.
    unfold persist. f_equal.
    rewrite (inv_irc _ _ _ HI2), Hfn, Hirc'. unfold hi. rewrite cmds_app, filter_app, ents_store_app.
    unfold range. rewrite filter_app.
    rewrite (filter_none _ _ (ents_store (filter (gt_idx base') (cmds extra)))); [rewrite app_nil_r; reflexivity|].
    intros [kx vx] Hin. unfold ents_store in Hin. apply in_map_iff in Hin. destruct Hin as (x & Hx & Hin).
    injection Hx as <- <-. cbn [fst]. apply filter_In in Hin. destruct Hin as [Hin _].
    unfold cmds in Hin. apply filter_In in Hin. destruct Hin as [Hin _].
    destruct HL as [Hs _]. pose proof (pre_lt_post L (w_applied w) xl x Hs Hxl (Hex x Hin)). lia.
  Qed.

  Lemma step_inv : forall L w base st, log_ok L -> Inv L w base -> step_ok S O B vr w st ->
    exists base', Inv L (stepf vr L w st) base'.
  Proof.
    intros L w base st HL HI Hok. destruct st as [n|t k ok| |]; cbn [do_step step_ok] in *.
    - subst n. destruct (nth_error L (w_applied w)) as [e|] eqn:Hn.
      + exists base. apply apply_inv; assumption.
      + exists base. exact HI.
    - destruct (snapf vr t (w_fsm w)) as [[f' sn]|] eqn:Hsn.
      + destruct (snapshot_inv L w base t f' sn HL HI Hsn) as (base' & HI' & Hp & _).
        destruct (apply_n_inv k L _ base' HL HI') as (HI2 & Hps & _).
        rewrite (persist_late L w base t f' sn k HL HI Hsn).
        destruct (apply_n S O B apply exp_of rev_of L k (mkWorld S O B f' (w_applied w) (w_persisted w))) as [f2 n2 ps2] eqn:Hw2.
        cbn [w_fsm w_applied w_persisted] in *. subst ps2.
        exists base'. destruct ok; [apply inv_add_pers; assumption|exact HI2].
      + exists base. exact HI.
    - destruct (w_persisted w) as [|p ps] eqn:Hps.
      + exists base. exact HI.
      + destruct (restore_inv L (w_fsm w) p (p :: ps) HL) as (f' & lii & Hr & HI').
        * apply (inv_pers _ _ _ HI). rewrite Hps. left. reflexivity.
        * apply (inv_lss _ _ _ HI).
        * intros q Hq. apply (inv_pers _ _ _ HI). rewrite Hps. exact Hq.
        * rewrite Hr. exists lii. exact HI'.
    - destruct (w_persisted w) as [|p ps] eqn:Hps.
      { destruct Hok as [Hd18|Hne]; [|congruence]. rewrite Hd18. exists 0. apply init_inv. exact HL. }
      destruct (restore_inv L (fresh_fsm S O B init (if fix_d18 vr then [] else ircstore (w_fsm w))) p (p :: ps) HL)
        as (f' & lii & Hr & HI').
      + apply (inv_pers _ _ _ HI). rewrite Hps. left. reflexivity.
      + intros k b [].
      + intros q Hq. apply (inv_pers _ _ _ HI). rewrite Hps. exact Hq.
      + rewrite Hr. exists lii. exact HI'.
  Qed.

  Lemma run_inv : forall L sigma w base, log_ok L -> Inv L w base ->
    schedule_ok S O B init apply marshal unmarshal exp_of rev_of vr L sigma w ->
    exists base', Inv L (run S O B init apply marshal unmarshal exp_of rev_of vr L sigma w) base'.
  Proof.
    intros L sigma. induction sigma as [|st sigma IH]; intros w base HL HI Hok.
    - exists base. exact HI.
    - cbn [schedule_ok] in Hok. destruct Hok as [Hst Hrest].
      destruct (step_inv L w base st HL HI Hst) as (base' & HI').
      unfold run. cbn [fold_left]. apply (IH _ base' HL HI' Hrest).
  Qed.

  Lemma reach_inv : forall L sigma, log_ok L ->
    schedule_ok S O B init apply marshal unmarshal exp_of rev_of vr L sigma (world0 S O B init) ->
    exists base, Inv L (run S O B init apply marshal unmarshal exp_of rev_of vr L sigma (world0 S O B init)) base.
  Proof. intros L sigma HL Hok. apply (run_inv L sigma _ 0 HL (init_inv L HL) Hok). Qed.

  (* ---- the C02 statements ------------------------------------------------------------- *)
  Section GetFacts.
    Context {V : Type}.
    Lemma get_app : forall k (a b : store V), get k (a ++ b) = match get k a with Some v => Some v | None => get k b end.
    Proof.
      intros k a b. induction a as [|[k' v] a IH]; [reflexivity|]. cbn [app get].
      destruct (k' =? k); [reflexivity|exact IH].
    Qed.
    Lemma get_none : forall k (a : store V), (forall kv, In kv a -> fst kv <> k) -> get k a = None.
    Proof.
      intros k a. induction a as [|[k' v] a IH]; intros H; [reflexivity|]. cbn [get].
      assert (Hk : k' =? k = false).
      { specialize (H (k', v) (or_introl eq_refl)). cbn [fst] in H. lia. }
      rewrite Hk. apply IH. intros kv Hkv. apply H. right. exact Hkv.
    Qed.
  End GetFacts.

  Definition reached (L : list entry) (sigma : list step) : World :=
    run S O B init apply marshal unmarshal exp_of rev_of vr L sigma (world0 S O B init).
  Definition valid (L : list entry) (sigma : list step) : Prop :=
    schedule_ok S O B init apply marshal unmarshal exp_of rev_of vr L sigma (world0 S O B init).

  Theorem fsm_state : forall L sigma, log_ok L -> valid L sigma ->
    server (w_fsm (reached L sigma)) = replay S O init apply (firstn (w_applied (reached L sigma)) L).
  Proof.
    intros L sigma HL Hok. destruct (reach_inv L sigma HL Hok) as (base & HI).
    unfold reached, replay. apply (inv_srv _ _ _ HI).
  Qed.

  Theorem fsm_output : forall L sigma, log_ok L -> valid L sigma ->
    forall i,
      get i (outstore (w_fsm (reached L sigma))) =
      if existsb (N.eqb i) (keys (ircstore (w_fsm (reached L sigma))))
      then get i (replay_out S O init apply (firstn (w_applied (reached L sigma)) L))
      else None.
  Proof.
    intros L sigma HL Hok i. destruct (reach_inv L sigma HL Hok) as (base & HI).
    fold (reached L sigma) in HI. destruct HL as [Hs Hge].
    set (w := reached L sigma) in *. set (pre := firstn (w_applied w) L) in *.
    assert (Hsp : sorted pre) by (apply (firstn_skipn_sorted _ L Hs)).
    rewrite (inv_out _ _ _ HI), (inv_irc _ _ _ HI). fold pre.
    unfold replay_out. rewrite (lo_hi_split base pre Hsp), ro_app.
    destruct (existsb (N.eqb i) (keys (ents_store (hi base pre)))) eqn:Hex.
    - apply existsb_exists in Hex. destruct Hex as (k & Hk & Hik). apply N.eqb_eq in Hik. subst k.
      unfold keys, ents_store in Hk. rewrite map_map in Hk. cbn [fst] in Hk. apply in_map_iff in Hk.
      destruct Hk as (x & Hxi & Hx). apply in_hi in Hx.
      rewrite get_app. rewrite (get_none i (ro init (lo base pre))); [reflexivity|].
      intros kv Hkv. destruct (ro_keys _ _ _ Hkv) as (y & Hy & Hyk). apply in_lo in Hy. lia.
    - apply get_none. intros kv Hkv Heq. destruct (ro_keys _ _ _ Hkv) as (y & Hy & Hyk).
      assert (Hc : existsb (N.eqb i) (keys (ents_store (hi base pre))) = true).
      { apply existsb_exists. exists (e_idx y). split; [|apply N.eqb_eq; lia].
        unfold keys, ents_store. rewrite map_map. cbn [fst]. apply in_map. exact Hy. }
      congruence.
  Qed.

  Theorem fsm_exact : forall L sigma, log_ok L -> valid L sigma ->
    let w := reached L sigma in
    let pre := firstn (w_applied w) L in
    exists base,
      (* the node-local log copy holds exactly the applied commands above the cut, unmodified *)
      ircstore (w_fsm w) = ents_store (filter (gt_idx base) (cmds pre)) /\
      (* nothing beyond the applied prefix is at or below the cut *)
      (forall e, In e (skipn (w_applied w) L) -> base < e_idx e) /\
      (* everything at or below the cut is folded into the state filed under the cut *)
      (base = 0 \/
       exists b, In (base, b) (lss (w_fsm w)) /\
                 unmarshal b = Some (replay S O init apply (filter (le_idx base) pre), base)).
  Proof.
    intros L sigma HL Hok w pre. destruct (reach_inv L sigma HL Hok) as (base & HI).
    fold (reached L sigma) in HI. fold w in HI. exists base. destruct HL as [Hs Hge].
    split; [apply (inv_irc _ _ _ HI)|]. split; [apply (inv_bnd _ _ _ HI)|].
    destruct (inv_base _ _ _ HI) as [Hb|[b Hb]]; [left; exact Hb|right].
    exists b. split; [exact Hb|]. rewrite (inv_lss _ _ _ HI _ _ Hb).
    rewrite (state_upto_pre L (w_applied w) base Hs (inv_bnd _ _ _ HI)).
    unfold replay, lo, cmds. fold pre. rewrite filter_filter_comm. reflexivity.
  Qed.

  Theorem fsm_cut : forall L sigma, log_ok L -> valid L sigma ->
    let w := reached L sigma in
    let pre := firstn (w_applied w) L in
    forall t f' sn, snapf vr t (w_fsm w) = Some (f', sn) ->
    let hz := (t - (eff_exp (exp_of (replay S O init apply pre)) + expire_interval))%Z in
    exists base base',
      ircstore (w_fsm w) = ents_store (filter (gt_idx base) (cmds pre)) /\
      let stored := filter (gt_idx base) (cmds pre) in
      (* exactly the maximal prefix of stored entries not newer than the horizon is folded *)
      ircstore f' = ents_store (new_suffix hz stored) /\
      (forall e, In e (old_prefix hz stored) -> (e_ts e <= hz)%Z) /\
      (forall e r, new_suffix hz stored = e :: r -> (hz < e_ts e)%Z) /\
      (* and the snapshot state is the plain replay of everything that is no longer stored *)
      unmarshal (sn_state sn) =
        Some (run_state S O apply init (filter (le_idx base) (cmds pre) ++ old_prefix hz stored), base') /\
      server f' = server (w_fsm w).
  Proof.
    intros L sigma HL Hok w pre t f' sn Hsn hz. destruct (reach_inv L sigma HL Hok) as (base & HI).
    fold (reached L sigma) in HI. fold w in HI.
    destruct (snapshot_inv L w base t f' sn HL HI Hsn) as (base' & HI' & _ & Hhi' & Hlo' & Hirc' & Hst & _).
    assert (Hhz : horizon (expdur (w_fsm w)) t = hz).
    { unfold horizon, hz. rewrite (inv_exp _ _ _ HI), (inv_srv _ _ _ HI). reflexivity. }
    rewrite Hhz in *. fold pre in Hhi', Hlo', Hirc', Hst.
    exists base, base'. split; [apply (inv_irc _ _ _ HI)|]. cbv zeta.
    change (filter (gt_idx base) (cmds pre)) with (hi base pre).
    change (filter (le_idx base) (cmds pre)) with (lo base pre).
    split; [rewrite Hirc', Hhi'; reflexivity|].
    split; [apply old_prefix_old|]. split; [apply new_suffix_head_new|].
    split; [rewrite Hst, Hlo'; reflexivity|].
    pose proof (inv_srv _ _ _ HI') as H1. pose proof (inv_srv _ _ _ HI) as H2.
    cbn [w_fsm w_applied] in H1. rewrite H1, H2. reflexivity.
  Qed.
  (* a snapshot persisted later (raft persists in another goroutine while it keeps applying) has the content it
     would have had immediately: it is a function of the log prefix up to the index captured by Snapshot() *)
  Theorem fsm_persist_late : forall L sigma, log_ok L -> valid L sigma ->
    let w := reached L sigma in
    forall t k f' sn, snapf vr t (w_fsm w) = Some (f', sn) ->
    persist S O B (w_fsm (apply_n S O B apply exp_of rev_of L k (mkWorld S O B f' (w_applied w) (w_persisted w)))) sn (w_applied w) =
    persist S O B f' sn (w_applied w).
  Proof.
    intros L sigma HL Hok w t k f' sn Hsn. destruct (reach_inv L sigma HL Hok) as (base & HI).
    fold (reached L sigma) in HI. fold w in HI. apply (persist_late L w base t f' sn k HL HI Hsn).
  Qed.
End Proofs.

(* ================================================================================== *)
(* the digest machine (FsmDriver.v) satisfies the hypotheses: non-vacuity              *)
(* ================================================================================== *)
From RV Require Import Fsm.FsmDriver.

Lemma d_cfg_of_snoc : forall s e, d_cfg_of (s ++ [e]) = d_cfg_step (d_cfg_of s) e.
Proof. intros s e. unfold d_cfg_of. rewrite fold_left_app. reflexivity. Qed.

Lemma d_roundtrip : forall s k, d_unmarshal (d_marshal s k) = Some (s, k).
Proof. reflexivity. Qed.
Lemma d_exp_frame : forall s e, sets_exp (d_rev_of s) e = false -> d_exp_of (fst (d_apply s e)) = d_exp_of s.
Proof.
  intros s e H. unfold d_exp_of, d_apply. cbn [fst]. rewrite d_cfg_of_snoc. unfold d_cfg_step.
  unfold d_rev_of in H. rewrite H. reflexivity.
Qed.
Lemma d_exp_init : eff_exp (d_exp_of d_init) = ten_minutes.
Proof. reflexivity. Qed.

Definition d_valid (v : variant) (L : list entry) (sigma : list step) : Prop :=
  schedule_ok dS dO dB d_init d_apply d_marshal d_unmarshal d_exp_of d_rev_of v L sigma (world0 dS dO dB d_init).
Definition d_valid_raft (v : variant) (L : list entry) (sigma : list step) : Prop :=
  schedule_ok_raft dS dO dB d_init d_apply d_marshal d_unmarshal d_exp_of d_rev_of v L sigma (world0 dS dO dB d_init).
Definition d_run (v : variant) (L : list entry) (sigma : list step) : dworld :=
  run dS dO dB d_init d_apply d_marshal d_unmarshal d_exp_of d_rev_of v L sigma (world0 dS dO dB d_init).
Definition d_replay (l : list entry) : dS := replay dS dO d_init d_apply l.

Local Open Scope Z_scope.
Definition minute : Z := 60000000000.
Definition cmd (i : N) (ts : Z) : entry := mkEntry i ts KCmd None 0%N EmptyString.
Definition cfg (i : N) (ts : Z) (d : N) (r : N) : entry := mkEntry i ts KCmd (Some d) r EmptyString.
Definition noop (i : N) : entry := mkEntry i 0 KInternal None 0%N EmptyString.

Ltac solve_valid :=
  vm_compute; repeat split; try discriminate;
  try (let Hx := fresh "Hx" in intro Hx; discriminate Hx);
  try (left; reflexivity);
  try (right; let Hx := fresh "Hx" in intro Hx; discriminate Hx).
Ltac solve_log_ok :=
  split; [unfold sorted, idxs; cbn [map e_idx cmd cfg noop]; repeat constructor; lia
         | repeat constructor; cbn [e_idx cmd cfg noop]; lia].

(* D3 witness: four old entries, snapshot (folds everything), one new entry, snapshot, restart *)
Definition d3_log : list entry := [cmd 1 1; cmd 2 2; cmd 3 3; cmd 4 4; cmd 5 (100 * minute)].
Definition d3_t : Z := 100 * minute + 100000000000.
Definition d3_sched : list step :=
  [SApply 0; SApply 1; SApply 2; SApply 3; SSnapshot d3_t 0 true; SApply 4; SSnapshot d3_t 0 true; SRestart].

Lemma d3_log_ok : log_ok d3_log.
Proof. solve_log_ok. Qed.

(* the pinned tree violates C02_state (D3): after the restart the server is not the replay *)
Theorem refuted_pinned_d3 : exists L sigma, log_ok L /\ d_valid pinned L sigma /\
  server (w_fsm (d_run pinned L sigma)) <> d_replay (firstn (w_applied (d_run pinned L sigma)) L).
Proof.
  exists d3_log, d3_sched. split; [exact d3_log_ok|]. split.
  - solve_valid.
  - vm_compute. discriminate.
Qed.

(* the same schedule on the repaired tree: hypotheses of the theorems are satisfiable, result non-trivial *)
Example d3_repaired_ok : log_ok d3_log /\ d_valid repaired d3_log d3_sched /\
  server (w_fsm (d_run repaired d3_log d3_sched)) = d_replay d3_log /\
  map fst (ircstore (w_fsm (d_run repaired d3_log d3_sched))) = [5%N] /\
  map fst (lss (w_fsm (d_run repaired d3_log d3_sched))) = [4%N].
Proof.
  split; [exact d3_log_ok|]. split; [solve_valid|].
  split; [vm_compute; reflexivity|]. split; vm_compute; reflexivity.
Qed.

(* a schedule with index gaps, a failed Persist, Restore on the live FSM and a restart *)
Definition mix_log : list entry :=
  [noop 1; cmd 2 2; cfg 3 3 (30 * 60000000000)%N 1%N; noop 4; cmd 5 5; cmd 6 (100 * minute); noop 7; cmd 8 (101 * minute)].
Definition mix_sched : list step :=
  [SApply 0; SApply 1; SApply 2; SApply 3; SApply 4; SApply 5; SSnapshot (100 * minute + 30 * minute) 0 false;
   SApply 6; SSnapshot (100 * minute + 30 * minute) 0 true; SApply 7; SRestore; SApply 7;
   SSnapshot (140 * minute) 0 true; SRestart; SSnapshot (141 * minute) 0 true].
Example mix_ok : log_ok mix_log /\ d_valid repaired mix_log mix_sched /\
  server (w_fsm (d_run repaired mix_log mix_sched)) = d_replay mix_log /\
  map fst (lss (w_fsm (d_run repaired mix_log mix_sched))) = [8%N] /\
  List.length (w_persisted (d_run repaired mix_log mix_sched)) = 2%nat.
Proof.
  split; [solve_log_ok|]. split; [solve_valid|].
  split; [vm_compute; reflexivity|]. split; vm_compute; reflexivity.
Qed.

(* D15 witness: Config 30 min is folded, restart + Restore, then Snapshot: the pinned FSM uses the
   10-minute default and folds entries that are newer than the configured horizon *)
Definition d15_log : list entry :=
  [cfg 1 1 (30 * 60000000000)%N 1%N; cmd 2 2; cmd 3 3; cmd 4 4; cmd 5 (100 * minute); cmd 6 (101 * minute)].
Definition d15_sched : list step :=
  [SApply 0; SApply 1; SApply 2; SApply 3; SApply 4; SApply 5; SSnapshot (120 * minute) 0 true; SRestart].
Definition d15_t : Z := 116 * minute.

Theorem refuted_pinned_d15 : exists L sigma t e r f' sn, log_ok L /\ d_valid pinned L sigma /\
  let w := d_run pinned L sigma in
  ircstore (w_fsm w) = (e_idx e, e) :: r /\
  (t - (eff_exp (d_exp_of (server (w_fsm w))) + expire_interval) < e_ts e) /\
  fsm_snapshot dS dO dB d_init d_apply d_marshal d_unmarshal d_exp_of d_rev_of pinned t (w_fsm w) = Some (f', sn) /\
  ircstore f' = [].
Proof.
  exists d15_log, d15_sched, d15_t, (cmd 5 (100 * minute)), [(6%N, cmd 6 (101 * minute))].
  eexists. eexists.
  split; [solve_log_ok|]. split; [solve_valid|].
  cbv zeta. split; [vm_compute; reflexivity|]. split; [vm_compute; reflexivity|].
  split; vm_compute; reflexivity.
Qed.

(* D15b: folding an old Config message into the temporary server overwrites the FSM's copy *)
Definition d15b_log : list entry :=
  [cfg 1 1 (5 * 60000000000)%N 1%N; cmd 2 2; cmd 3 3; cmd 4 4; cfg 5 (100 * minute) (30 * 60000000000)%N 2%N; cmd 6 (101 * minute)].
Definition d15b_sched : list step :=
  [SApply 0; SApply 1; SApply 2; SApply 3; SApply 4; SApply 5; SSnapshot (120 * minute) 0 true].
Theorem refuted_pinned_d15b : exists L sigma, log_ok L /\ d_valid pinned L sigma /\
  let w := d_run pinned L sigma in
  eff_exp (expdur (w_fsm w)) <> eff_exp (d_exp_of (server (w_fsm w))).
Proof.
  exists d15b_log, d15b_sched. split; [solve_log_ok|]. split; [solve_valid|].
  vm_compute. discriminate.
Qed.

(* D18: a restart before any snapshot was persisted finds the old irclog; a Snapshot taken before raft
   has re-applied everything folds entries the live server has not seen — also on the repaired tree *)
Definition d18_log : list entry := [cmd 1 1; cmd 2 2; cmd 3 3; cmd 4 4].
Definition d18_sched : list step :=
  [SApply 0; SApply 1; SApply 2; SApply 3; SRestart; SApply 0; SSnapshot (60 * minute) 0 true;
   SApply 1; SApply 2; SApply 3; SSnapshot (60 * minute) 0 true; SRestart].
Theorem refuted_restart_without_snapshot : exists L sigma, log_ok L /\ d_valid_raft repaired L sigma /\
  server (w_fsm (d_run repaired L sigma)) <> d_replay (firstn (w_applied (d_run repaired L sigma)) L).
Proof.
  exists d18_log, d18_sched. split; [solve_log_ok|]. split.
  - solve_valid.
  - vm_compute. discriminate.
Qed.

(* with the D18 repair (main() re-creates irclog at start) the same schedule is covered by the theorems *)
Example d18_repaired_all_ok : log_ok d18_log /\ d_valid repaired_all d18_log d18_sched /\
  server (w_fsm (d_run repaired_all d18_log d18_sched)) = d_replay d18_log.
Proof. split; [solve_log_ok|]. split; [solve_valid|vm_compute; reflexivity]. Qed.

(* Snapshot(), two more entries applied (a CreateSession and a NICK: not idempotent), then Persist, restart:
   the snapshot is filed under the index captured by Snapshot(), raft replays the two entries once *)
Definition late_log : list entry := [cmd 1 1; cmd 2 2; noop 3; cmd 4 (100 * minute); cmd 5 (101 * minute); cmd 6 (102 * minute)].
Definition late_sched : list step :=
  [SApply 0; SApply 1; SApply 2; SApply 3; SSnapshot (30 * minute) 2 true; SRestart; SApply 4; SApply 5].
Example late_ok : log_ok late_log /\ d_valid repaired late_log late_sched /\
  server (w_fsm (d_run repaired late_log late_sched)) = d_replay late_log /\
  map p_applied (w_persisted (d_run repaired late_log late_sched)) = [4%nat] /\
  map (fun p => map e_idx (p_entries p)) (w_persisted (d_run repaired late_log late_sched)) = [[4%N]].
Proof.
  split; [solve_log_ok|]. split; [solve_valid|].
  split; [vm_compute; reflexivity|]. split; vm_compute; reflexivity.
Qed.

(* Config messages that do not follow the revision in force (duplicate, future, stale) change neither the
   configuration nor the compaction horizon — live, folded into a snapshot, or after a restart *)
Definition rev_log : list entry :=
  [cfg 1 1 (30 * 60000000000)%N 1%N; cmd 2 2; cfg 3 3 (5 * 60000000000)%N 1%N; cfg 4 4 (5 * 60000000000)%N 3%N;
   cfg 5 5 (5 * 60000000000)%N 0%N; cmd 6 (100 * minute); cfg 7 (101 * minute) (5 * 60000000000)%N 4%N; cmd 8 (102 * minute)].
Definition rev_sched : list step :=
  [SApply 0; SApply 1; SApply 2; SApply 3; SApply 4; SApply 5; SApply 6; SApply 7; SSnapshot (120 * minute) 0 true; SRestart;
   SSnapshot (125 * minute) 0 true].
Example rev_ok : log_ok rev_log /\ d_valid repaired rev_log rev_sched /\
  let w := d_run repaired rev_log rev_sched in
  server (w_fsm w) = d_replay rev_log /\ d_rev_of (server (w_fsm w)) = 1%N /\
  expdur (w_fsm w) = (30 * 60000000000)%N /\ map fst (ircstore (w_fsm w)) = [6%N; 7%N; 8%N].
Proof.
  split; [solve_log_ok|]. split; [solve_valid|]. cbv zeta.
  split; [vm_compute; reflexivity|]. split; [vm_compute; reflexivity|]. split; vm_compute; reflexivity.
Qed.

