(* Irc/IrcDriver.v — case-file driver of the IRC model; format: /verif/harness/IRCFORMAT.md *)
From stdpp Require Import gmap.
From Coq Require Import Strings.String Strings.Ascii ZArith NArith.
From RV Require Import Base.Text Irc.Str Irc.Parse Irc.State Irc.Monad Irc.Cmds Irc.SCmds Irc.Apply.
Local Open Scope string_scope.

Inductive step :=
| SEntry (e : entry) | SReload | SExpire (now : Z) | SGet (sid : N) | SLpm (sid : N) | SBad.

(* ---- parsing ------------------------------------------------------------------------------ *)
Fixpoint split_tokens (l : list string) (cur : list string) : list (list string) :=
  match l with
  | [] => [rev cur]
  | t :: r => if String.eqb t "|" then rev cur :: split_tokens r [] else split_tokens r (t :: cur)
  end.

Definition kv_value (s : string) : string :=
  match index_byte "="%char s with Some i => sdrop (S i) s | None => EmptyString end.

Definition list_field (s : string) : list string :=
  if String.eqb s "-" then [] else split_on ","%char s.
Definition pair_field (s : string) : string * string :=
  match split_on ":"%char s with
  | a :: b :: _ => (unhex_field a, unhex_field b)
  | a :: _ => (unhex_field a, EmptyString)
  | [] => (EmptyString, EmptyString)
  end.
Definition N_of (s : string) : N := match N_of_dec s with Some n => n | None => 0%N end.
Definition Z_of (s : string) : Z := match Z_of_dec s with Some n => n | None => 0%Z end.

(* <cfg>: "invalid" or exp=/cool=/maxs=/maxc=/capurl=/caphmac=/caplogin=/ops=/svc=/banned=/tb=/wo= *)
Definition parse_cfg (tok : string) : option config :=
  if String.eqb tok "invalid" then None else
  let f := map kv_value (split_on "/"%char tok) in
  let g i := nth i f EmptyString in
  Some (Config 0 (Z_of (g 0%nat)) (Z_of (g 1%nat)) (N_of (g 2%nat)) (N_of (g 3%nat))
               (unhex_field (g 4%nat)) (unhex_field (g 5%nat)) (String.eqb (g 6%nat) "1")
               (map pair_field (list_field (g 7%nat)))
               (map unhex_field (list_field (g 8%nat)))
               (list_to_map (map pair_field (list_field (g 9%nat))))
               (list_to_map (map pair_field (list_field (g 10%nat))))
               (list_to_set (map unhex_field (list_field (g 11%nat))))).

Definition parse_step (t : list string) : step :=
  let g i := nth i t EmptyString in
  let kind := g 0%nat in
  if String.eqb kind "C" then SEntry (ECreate (N_of (g 1%nat)) (Z_of (g 2%nat)) (unhex_field (g 3%nat)))
  else if String.eqb kind "D" then SEntry (EDelete (N_of (g 1%nat)) (Z_of (g 2%nat)) (N_of (g 3%nat)) (unhex_field (g 4%nat)))
  else if String.eqb kind "M" then
    SEntry (EMessage (N_of (g 1%nat)) (Z_of (g 2%nat)) (N_of (g 3%nat)) (N_of (g 4%nat)) (unhex_field (g 5%nat)) (unhex_field (g 6%nat)))
  else if String.eqb kind "X" then
    SEntry (EDeath (N_of (g 1%nat)) (Z_of (g 2%nat)) (N_of (g 3%nat)) (N_of (g 4%nat)) (unhex_field (g 5%nat)))
  else if String.eqb kind "F" then
    SEntry (EConfig (N_of (g 1%nat)) (Z_of (g 2%nat)) (N_of (g 3%nat)) (parse_cfg (g 5%nat)))
  else if String.eqb kind "S" then SReload
  else if String.eqb kind "E" then SExpire (Z_of (g 1%nat))
  else if String.eqb kind "G" then SGet (N_of (g 1%nat))
  else if String.eqb kind "P" then SLpm (N_of (g 1%nat))
  else SBad.

(* O captcha <token-hex> <ns|invalid> *)
Definition parse_oracles (groups : list (list string)) : env :=
  Env (flat_map (fun t =>
         if String.eqb (nth 0 t EmptyString) "O" && String.eqb (nth 1 t EmptyString) "captcha"
         then [(unhex_field (nth 2 t EmptyString), Z_of_dec (nth 3 t EmptyString))] else []) groups).

Definition is_oracle (t : list string) : bool := String.eqb (nth 0 t EmptyString) "O".

(* ---- printing ----------------------------------------------------------------------------- *)
Definition hx := hex_field.
Definition b01 (b : bool) : string := if b then "1" else "0".
Definition show_time (t : time) : string := match t with None => "zero" | Some z => dec_of_Z z end.
Definition show_list (l : list string) : string := match l with [] => "-" | _ => sjoin "," l end.
Definition show_modes (m : gset N) : string :=
  match set_of_ids (elements m) with [] => "-" | l => string_of_list (map chr l) end.
Definition show_strset (m : gset string) : string := show_list (map hx (sort_strings (elements m))).

Definition key_le (a b : skey) : bool :=
  (fst a <? fst b)%N || ((fst a =? fst b)%N && (snd a <=? snd b)%N).
Fixpoint insert_key {A} (x : skey * A) (l : list (skey * A)) : list (skey * A) :=
  match l with
  | [] => [x]
  | y :: r => if key_le (fst x) (fst y) then x :: l else y :: insert_key x r
  end.
Definition sort_keys {A} (l : list (skey * A)) : list (skey * A) := fold_right insert_key [] l.

Fixpoint insert_skv {A} (x : string * A) (l : list (string * A)) : list (string * A) :=
  match l with
  | [] => [x]
  | y :: r => if String.leb (fst x) (fst y) then x :: l else y :: insert_skv x r
  end.
Definition sort_skv {A} (l : list (string * A)) : list (string * A) := fold_right insert_skv [] l.

Definition show_session (s : session) : string :=
  sjoin "/" ["S"; dec_of_N (fst (s_key s)); dec_of_N (snd (s_key s));
    "nick=" ++ hx (s_nick s); "user=" ++ hx (s_user s); "real=" ++ hx (s_real s);
    "li=" ++ b01 (s_loggedIn s); "op=" ++ b01 (s_operator s); "srv=" ++ b01 (s_server s); "del=" ++ b01 (s_deleted s);
    "away=" ++ hx (s_away s); "pass=" ++ hx (s_pass s); "modes=" ++ show_modes (s_modes s); "svid=" ++ hx (s_svid s);
    "la=" ++ show_time (s_lastActivity s); "lnp=" ++ show_time (s_lastNonPing s); "lsc=" ++ show_time (s_lastSolvedCaptcha s);
    "cr=" ++ dec_of_Z (s_created s); "cmid=" ++ dec_of_N (s_cmid s); "ra=" ++ hx (s_remoteAddr s); "auth=" ++ hx (s_auth s);
    "thr=0"; "ch=" ++ show_strset (s_channels s); "inv=" ++ show_strset (s_invited s);
    "pfx=" ++ hx (prefix_string (s_prefix s))].

Definition show_chan (kv : string * chan) : string :=
  let c := snd kv in
  sjoin "/" ["C"; hx (fst kv); "name=" ++ hx (c_name c); "topic=" ++ hx (c_topic c); "tnick=" ++ hx (c_topicNick c);
    "ttime=" ++ show_time (c_topicTime c); "modes=" ++ show_modes (c_modes c); "key=" ++ hx (c_key c);
    "bans=" ++ show_list (map (fun b => hx (fst b)) (c_bans c));
    "m=" ++ show_list (map (fun nv : string * (bool * bool) => hx (fst nv) ++ ":" ++ b01 (fst (snd nv)) ++ b01 (snd (snd nv)))
                           (sort_skv (map_to_list (c_nicks c))))].

Definition show_config (g : config) : string :=
  sjoin "/" ["G"; "rev=" ++ dec_of_N (g_revision g); "exp=" ++ dec_of_Z (g_expiration g); "cool=" ++ dec_of_Z (g_cooloff g);
    "maxs=" ++ dec_of_N (g_maxSessions g); "maxc=" ++ dec_of_N (g_maxChannels g); "capurl=" ++ hx (g_captchaURL g);
    "caphmac=" ++ hx (g_captchaHMAC g); "caplogin=" ++ b01 (g_captchaLogin g);
    "ops=" ++ show_list (map (fun o => hx (fst o) ++ ":" ++ hx (snd o)) (g_operators g));
    "svc=" ++ show_list (map hx (g_services g));
    "banned=" ++ show_list (map (fun o : string * string => hx (fst o) ++ ":" ++ hx (snd o)) (sort_skv (map_to_list (g_banned g))));
    "tb=" ++ show_list (map (fun o : string * string => hx (fst o) ++ ":" ++ hx (snd o)) (sort_skv (map_to_list (g_trustedBridges g))));
    "wo=" ++ show_strset (g_whitelistedOrigins g)].

Definition show_hold (kv : string * svshold) : string :=
  sjoin "/" ["H"; hx (fst kv); "added=" ++ show_time (h_added (snd kv));
             "dur=" ++ dec_of_Z (h_duration (snd kv)); "reason=" ++ hx (h_reason (snd kv))].
Definition show_nickidx (kv : string * skey) : string :=
  sjoin "/" ["N"; hx (fst kv); dec_of_N (fst (snd kv)); dec_of_N (snd (snd kv))].
Definition show_links (sv : server) : string :=
  "V/" ++ show_list (map dec_of_N (set_of_ids (filter (fun id => bool_decide (is_Some (sv_sessions sv !! (id, 0%N))))
                                                      (sv_serverSessions sv)))).
Definition show_lastproc (sv : server) : string :=
  "L/" ++ dec_of_N (fst (sv_lastProcessed sv)) ++ "/" ++ dec_of_N (snd (sv_lastProcessed sv)).

Definition dump (sv : server) : string :=
  sjoin ";" (app (map (fun kv => show_session (snd kv)) (sort_keys (map_to_list (sv_sessions sv))))
            (app (map show_nickidx (sort_skv (map_to_list (sv_nicks sv))))
            (app (map show_chan (sort_skv (map_to_list (sv_channels sv))))
            (app (map show_hold (sort_skv (map_to_list (sv_svsholds sv))))
                 [show_links sv; show_lastproc sv; show_config (sv_config sv)])))).

Definition show_msg (m : omsg) : string :=
  dec_of_N (o_reply m) ++ ":" ++ hx (o_data m) ++ ":" ++ show_list (map dec_of_N (o_rcpt m)).

Definition show_step (outcome : string) (msgs : list omsg) (st : option server) : string :=
  sjoin " " (app [outcome; "inv=-"; "n=" ++ dec_of_nat (List.length msgs)] (app (map show_msg msgs)
             match st with Some sv => ["st=" ++ dump sv] | None => [] end)).

(* ---- running --------------------------------------------------------------------------------- *)
Fixpoint run_steps (e : env) (dump_each : bool) (dump_end : bool) (sv : server) (steps : list step) : list string :=
  match steps with
  | [] => []
  | st :: rest =>
      let is_last := match rest with [] => true | _ => false end in
      let want := dump_each || (dump_end && is_last) in
      let d (sv' : server) := if want then Some sv' else None in
      let stop (s : string) := s :: map (fun _ => "notrun") rest in
      match st with
      | SEntry en =>
          match apply_entry e sv en with
          | OOk sv' out =>
              let oc := match en with
                        | EMessage _ _ session cmid _ _ => if is_retry (session, 0%N) cmid sv then "dup" else "ok"
                        | EConfig _ _ revision (Some g) =>
                            match config_in_force revision (Some g) sv with Some _ => "ok" | None => "cfgrev" end
                        | _ => "ok"
                        end in
              show_step oc out (d sv') :: run_steps e dump_each dump_end sv' rest
          | OSessionLimit sv' => show_step "err=sessionlimit" [] (d sv') :: run_steps e dump_each dump_end sv' rest
          | OSkip sv' => show_step "skip" [] (d sv') :: run_steps e dump_each dump_end sv' rest
          | OPanic site => stop ("panic=" ++ hx site ++ " inv=- n=0")
          | OGap site => stop ("gap=" ++ hx site ++ " inv=- n=0")
          end
      | SReload => let sv' := reload sv in show_step "ok" [] (d sv') :: run_steps e dump_each dump_end sv' rest
      | SExpire now =>
          show_step ("expire=" ++ show_list (map (fun p : N * string => dec_of_N (fst p) ++ ":" ++ hx (snd p))
                                                  (map snd (sort_keys (map (fun p : N * string => ((fst p, 0%N), p)) (expire_sessions sv now))))))
                    [] (d sv) :: run_steps e dump_each dump_end sv rest
      | SGet sid =>
          show_step (match get_session sv sid with LFound => "get=ok" | LNoSuch => "get=nosuch" | LNotYet => "get=notyet" end)
                    [] (d sv) :: run_steps e dump_each dump_end sv rest
      | SLpm sid => show_step ("lpm=" ++ dec_of_N (last_post_message sv sid)) [] (d sv) :: run_steps e dump_each dump_end sv rest
      | SBad => stop "badstep inv=- n=0"
      end
  end.

(* `irctable`: the model's command table, for the comparison with the table scanned from the source *)
Definition table_line : string :=
  "irctable " ++ sjoin "," (sort_strings (map (fun e : string * nat => fst e ++ ":" ++ dec_of_nat (snd e)) cmd_table)).

(* "ircline <hex>": what send() stores for a rendered line of these bytes (cut after 510 bytes + trimPartialRune), and
   what the JSON encoder delivers for the uncut line, the cut line and the stored line *)
Definition line_line (f : list string) : string :=
  let s := unhex_field (nth 1 f EmptyString) in
  let cut := stake max_length s in
  let stored := trim_partial_rune cut in
  sjoin " " ["ircline"; hex_field stored; hex_field (json_delivered s); hex_field (json_delivered cut); hex_field (json_delivered stored)].

Definition run_line (f : list string) : string :=
  if String.eqb (nth 0 f EmptyString) "irctable" then table_line else
  if String.eqb (nth 0 f EmptyString) "ircline" then line_line f else
  let net := unhex_field (nth 1 f EmptyString) in
  let opts := list_field (nth 2 f EmptyString) in
  let groups := match split_tokens (skipn 3 f) [] with _ :: g => g | [] => [] end in
  let e := parse_oracles groups in
  let steps := map parse_step (filter (fun t => negb (is_oracle t)) groups) in
  let dump_each := existsb (String.eqb "dump=each") opts in
  let dump_none := existsb (String.eqb "dump=none") opts in
  sjoin " | " ("irc" :: run_steps e dump_each (negb dump_each && negb dump_none) (init_server net) steps).
