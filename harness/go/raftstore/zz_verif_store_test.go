//go:build verif

package raftstore

// Correspondence driver for properties C09/C18 (LevelDBStore as raft.LogStore/StableStore),
// injected by `go test -overlay`, never part of /repo.  One operation program per line of
// $VERIF_IN, run against a real LevelDBStore in a fresh directory under $TMPDIR:
//   store <p|r> <offset> <j|p> <table> {<op>}*
// (<p|r> and <table> are for the model only).  Ops and observations: see
// coq/Store/StoreDriver.v.  One line per program is written to $VERIF_OUT.

import (
	"bufio"
	"encoding/binary"
	"encoding/hex"
	"fmt"
	"io"
	"log"
	"os"
	"os/exec"
	"path/filepath"
	"strconv"
	"strings"
	"syscall"
	"testing"
	"time"

	"github.com/hashicorp/raft"
	"github.com/syndtr/goleveldb/leveldb"
	"google.golang.org/protobuf/types/known/timestamppb"

	pb "github.com/robustirc/robustirc/internal/proto"
	"github.com/robustirc/robustirc/internal/raftlog"
	"github.com/robustirc/robustirc/internal/robust"
)

func verifUnhex(s string) []byte {
	if s == "-" {
		return []byte{}
	}
	b, err := hex.DecodeString(s)
	if err != nil {
		panic(err)
	}
	return b
}

func verifHex(b []byte) string {
	if len(b) == 0 {
		return "-"
	}
	return hex.EncodeToString(b)
}

func verifU(s string) uint64 {
	n, err := strconv.ParseUint(s, 10, 64)
	if err != nil {
		panic(err)
	}
	return n
}

func verifI(s string) int64 {
	n, err := strconv.ParseInt(s, 10, 64)
	if err != nil {
		panic(err)
	}
	return n
}

func verifParseLog(s string) *raft.Log {
	f := strings.Split(s, ",")
	return &raft.Log{
		Index: verifU(f[0]), Term: verifU(f[1]), Type: raft.LogType(verifU(f[2])),
		Data: verifUnhex(f[3]), Extensions: verifUnhex(f[4]),
		AppendedAt: time.Unix(verifI(f[5]), verifI(f[6])),
	}
}

func verifShowLog(l *raft.Log) string {
	return fmt.Sprintf("%d,%d,%d,%s,%s,%d,%d", l.Index, l.Term, uint64(l.Type), verifHex(l.Data), verifHex(l.Extensions),
		l.AppendedAt.Unix(), l.AppendedAt.Nanosecond())
}

func verifKey(i uint64) []byte {
	k := make([]byte, 8)
	binary.BigEndian.PutUint64(k, i)
	return k
}

// verifShowMsg decodes a command entry's data like every consumer does and prints the message
// in the canonical form of coq/Store/StoreDriver.v (show_msg).
func verifShowMsg(data []byte, id uint64) (res string) {
	defer func() {
		if r := recover(); r != nil {
			res = "panic"
		}
	}()
	m := robust.NewMessageFromBytes(data, id)
	servers := "_"
	if len(m.Servers) > 0 {
		var l []string
		for _, s := range m.Servers {
			l = append(l, verifHex([]byte(s)))
		}
		servers = strings.Join(l, "/")
	}
	return fmt.Sprintf("m:%d,%d,%d,%d,%d,%s,%d,%s,%s,%d,%d,%s", m.Id.Id, m.Id.Reply, m.Session.Id, m.Session.Reply,
		int64(m.Type), verifHex([]byte(m.Data)), m.UnixNano, servers, verifHex([]byte(m.Currentmaster)), m.ClientMessageId,
		m.Revision, verifHex([]byte(m.RemoteAddr)))
}

type verifStore struct {
	s   *LevelDBStore
	dir string
}

func (v *verifStore) op(tok string) (res string) {
	defer func() {
		if r := recover(); r != nil {
			res = "panic"
		}
	}()
	name, arg := tok, ""
	if i := strings.Index(tok, ":"); i >= 0 {
		name, arg = tok[:i], tok[i+1:]
	}
	a := strings.Split(arg, ",")
	errOr := func(err error, ok string) string {
		if err != nil {
			return "err"
		}
		return ok
	}
	s := v.s
	if s == nil {
		return "dead"
	}
	switch name {
	case "first":
		n, err := s.FirstIndex()
		return errOr(err, fmt.Sprintf("idx=%d", n))
	case "last":
		n, err := s.LastIndex()
		return errOr(err, fmt.Sprintf("idx=%d", n))
	case "get":
		var l raft.Log
		err := s.GetLog(verifU(a[0]), &l)
		if err == raft.ErrLogNotFound {
			return "notfound"
		}
		return errOr(err, "log="+verifShowLog(&l))
	case "sl":
		var logs []*raft.Log
		for _, e := range strings.Split(arg, "|") {
			logs = append(logs, verifParseLog(e))
		}
		if len(logs) == 1 {
			return errOr(s.StoreLog(logs[0]), "ok")
		}
		return errOr(s.StoreLogs(logs), "ok")
	case "slp":
		p := &pb.RaftLog{Index: verifU(a[0]), Term: verifU(a[1]), Type: pb.RaftLog_LogType(int32(verifI(a[2]))),
			Data: verifUnhex(a[3]), Extensions: verifUnhex(a[4])}
		if a[5] != "none" {
			p.AppendedAt = &timestamppb.Timestamp{Seconds: verifI(a[5]), Nanos: int32(verifI(a[6]))}
		}
		return errOr(s.StoreLogProto(p), "ok")
	case "dr":
		return errOr(s.DeleteRange(verifU(a[0]), verifU(a[1])), "ok")
	case "set":
		return errOr(s.Set(verifUnhex(a[0]), verifUnhex(a[1])), "ok")
	case "getk":
		val, err := s.Get(verifUnhex(a[0]))
		if err != nil {
			return "err"
		}
		if val == nil {
			return "bytes=nil"
		}
		return "bytes=" + verifHex(val)
	case "setu":
		return errOr(s.SetUint64(verifUnhex(a[0]), verifU(a[1])), "ok")
	case "getu":
		n, err := s.GetUint64(verifUnhex(a[0]))
		return errOr(err, fmt.Sprintf("u64=%d", n))
	case "reopen":
		if err := s.Close(); err != nil {
			return "err-close"
		}
		v.s = nil // stays nil if NewLevelDBStore panics (ConvertToProto on undecodable data)
		ns, err := NewLevelDBStore(v.dir, false, arg == "p")
		if ns == nil {
			panic(fmt.Sprintf("reopen failed: %v", err))
		}
		v.s = ns
		return errOr(err, "ok")
	case "convert":
		return errOr(s.ConvertToProto(), "ok")
	case "raw", "fb":
		val, err := s.db.Get(verifKey(verifU(a[0])), nil)
		if err == leveldb.ErrNotFound {
			return name + "=absent"
		}
		if err != nil {
			return "err"
		}
		if name == "raw" {
			if len(val) > 0 && val[0] == 'p' {
				return "raw=" + hex.EncodeToString(val)
			}
			return "raw=json"
		}
		l, err := raftlog.FromBytes(val)
		if err != nil {
			return "fb=err"
		}
		return "fb=" + verifShowLog(l)
	case "msg":
		var l raft.Log
		err := s.GetLog(verifU(a[0]), &l)
		if err == raft.ErrLogNotFound {
			return "msg=notfound"
		}
		if err != nil {
			return "msg=err"
		}
		if l.Type != raft.LogCommand {
			return "msg=-"
		}
		return "msg=" + verifShowMsg(l.Data, robust.IdFromRaftIndex(l.Index))
	case "putraw":
		var b leveldb.Batch
		b.Put(verifKey(verifU(a[0])), verifUnhex(a[1]))
		return errOr(s.WriteBatch(&b), "ok")
	}
	return "bad-op"
}

// verifRunSegment runs the operations of one process lifetime.  openObs is true when the segment
// follows a kill: the result of opening the database is the observation of that kill operation.
func verifRunSegment(dir string, proto bool, openObs bool, toks []string) []string {
	var res []string
	s, err := NewLevelDBStore(dir, false, proto)
	if s == nil {
		panic(fmt.Sprintf("open failed: %v", err))
	}
	if openObs {
		if err != nil {
			res = append(res, "err")
		} else {
			res = append(res, "ok")
		}
	}
	v := &verifStore{s: s, dir: dir}
	for _, tok := range toks {
		res = append(res, v.op(tok))
	}
	verifCurrent = v
	return res
}

var verifCurrent *verifStore

// TestVerifStoreChild is one process lifetime of a program with kill operations: it runs its
// segment, makes its observations durable and, unless it is the last segment, SIGKILLs itself
// with the database open (no Close, no flush beyond what the store did itself).
func TestVerifStoreChild(t *testing.T) {
	if os.Getenv("VERIF_CHILD_OPS") == "" {
		t.Skip("only run as a child of TestVerifStore")
	}
	log.SetOutput(io.Discard)
	off, _ := strconv.ParseUint(os.Getenv("VERIF_CHILD_OFFSET"), 10, 64)
	robust.MessageOffset = off
	var toks []string
	ob, err := os.ReadFile(os.Getenv("VERIF_CHILD_OPS")) // a file: operations can exceed the size limit of an environment string
	if err != nil {
		t.Fatal(err)
	}
	toks = strings.Fields(string(ob))
	res := verifRunSegment(os.Getenv("VERIF_CHILD_DIR"), os.Getenv("VERIF_CHILD_MODE") == "p", os.Getenv("VERIF_CHILD_OPENOBS") == "1", toks)
	f, err := os.Create(os.Getenv("VERIF_CHILD_OUT"))
	if err != nil {
		t.Fatal(err)
	}
	fmt.Fprintln(f, strings.Join(res, " ")+" .")
	f.Sync()
	f.Close()
	if os.Getenv("VERIF_CHILD_KILL") == "1" {
		syscall.Kill(os.Getpid(), syscall.SIGKILL)
		time.Sleep(time.Minute)
	}
	if verifCurrent != nil && verifCurrent.s != nil {
		verifCurrent.s.Close()
	}
}

// verifRunWithKills splits a program at its kill:<mode> operations and runs every part in a child
// process of this test binary on the same directory.
func verifRunWithKills(dir string, mode string, offset string, toks []string, n int) []string {
	var res []string
	openObs := false
	for len(toks) > 0 || openObs {
		seg := toks
		next, kill := "", false
		for i, tok := range toks {
			if strings.HasPrefix(tok, "kill:") {
				seg, next, kill = toks[:i], tok[len("kill:"):], true
				toks = toks[i+1:]
				break
			}
		}
		if !kill {
			toks = nil
		}
		outp := filepath.Join(filepath.Dir(dir), fmt.Sprintf("child%d.out", n))
		os.Remove(outp)
		ops := filepath.Join(filepath.Dir(dir), fmt.Sprintf("child%d.ops", n))
		if err := os.WriteFile(ops, []byte(strings.Join(seg, " ")), 0600); err != nil {
			panic(err)
		}
		cmd := exec.Command(os.Args[0], "-test.run=^TestVerifStoreChild$")
		k := "0"
		if kill {
			k = "1"
		}
		oo := "0"
		if openObs {
			oo = "1"
		}
		cmd.Env = append(os.Environ(), "VERIF_CHILD_OPS="+ops, "VERIF_CHILD_DIR="+dir, "VERIF_CHILD_MODE="+mode,
			"VERIF_CHILD_OFFSET="+offset, "VERIF_CHILD_OUT="+outp, "VERIF_CHILD_KILL="+k, "VERIF_CHILD_OPENOBS="+oo)
		cmd.Run() // a killed child reports "signal: killed"; what counts is the observation file
		b, err := os.ReadFile(outp)
		if err != nil {
			res = append(res, "child-failed")
			return res
		}
		fs := strings.Fields(string(b))
		if len(fs) == 0 || fs[len(fs)-1] != "." {
			res = append(res, "child-failed")
			return res
		}
		res = append(res, fs[:len(fs)-1]...)
		openObs = kill
		if kill {
			mode = next
		}
		if !kill {
			break
		}
	}
	return res
}

func TestVerifStore(t *testing.T) {
	in, err := os.Open(os.Getenv("VERIF_IN"))
	if err != nil {
		t.Fatal(err)
	}
	defer in.Close()
	out, err := os.Create(os.Getenv("VERIF_OUT"))
	if err != nil {
		t.Fatal(err)
	}
	defer out.Close()
	w := bufio.NewWriter(out)
	defer w.Flush()
	log.SetOutput(io.Discard)
	defer log.SetOutput(os.Stderr)
	base := t.TempDir()
	sc := bufio.NewScanner(in)
	sc.Buffer(make([]byte, 1<<20), 1<<28)
	n := 0
	for sc.Scan() {
		f := strings.Fields(sc.Text())
		if len(f) < 5 || f[0] != "store" {
			fmt.Fprintln(w, "store bad-case")
			continue
		}
		n++
		robust.MessageOffset = verifU(f[2])
		dir := filepath.Join(base, fmt.Sprintf("db%d", n))
		res := []string{"store"}
		hasKill := false
		for _, tok := range f[5:] {
			if strings.HasPrefix(tok, "kill:") {
				hasKill = true
			}
		}
		if hasKill {
			res = append(res, verifRunWithKills(dir, f[3], f[2], f[5:], n)...)
		} else {
			res = append(res, verifRunSegment(dir, f[3] == "p", false, f[5:])...)
			if verifCurrent != nil && verifCurrent.s != nil {
				verifCurrent.s.Close()
			}
			verifCurrent = nil
		}
		os.RemoveAll(dir)
		fmt.Fprintln(w, strings.Join(res, " "))
	}
	robust.MessageOffset = 0
}
