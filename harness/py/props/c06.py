# C06 — no client line can crash the state machine
from props import irc_common


def run(ck, replay):
    irc_common.run_irc_check(ck, "C06", "c06", replay, kinds=[None, "malformed"])
