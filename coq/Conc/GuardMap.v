(* C20 — the guard map of RobustIRC (part of the model; DESIGN §4 C20).
   Each field of the tracked structs (and the three package-level state pointers of package main)
   is classified: Guarded [locks] or Immutable.  The scanner emits accesses to *every* declared
   field of the tracked structs, so a field missing here fails the obligation.

   Lock names are "<Struct>.<mutex field>".  "raft.fsm" is a pseudo lock: hashicorp/raft invokes
   FSM.Apply / FSM.Snapshot / FSM.Restore serially from its single runFSM goroutine, which the
   scanner models as those three entry points holding "raft.fsm" exclusively.
   "main.stateMu" is the mutex introduced by the prepared repair fixes/D9b (absent on the pinned
   tree; writes of the package-level pointers therefore breach the discipline there). *)
From Coq Require Import String List.
From RV Require Import Conc.Lockset.
Import ListNotations.
Local Open Scope string_scope.

Definition sessionsMu := "IRCServer.sessionsMu".
Definition g1 (l : lock) := Guarded [l].

Definition guard_list : list (field * guard) := [
  (* ircserver.IRCServer *)
  ("IRCServer.sessions", g1 sessionsMu);
  ("IRCServer.nicks", g1 sessionsMu);
  ("IRCServer.channels", g1 sessionsMu);
  ("IRCServer.svsholds", g1 sessionsMu);
  ("IRCServer.serverSessions", g1 sessionsMu);
  ("IRCServer.Config", g1 "IRCServer.ConfigMu");
  ("IRCServer.lastProcessed", g1 "IRCServer.lastProcessedMu");
  ("IRCServer.sessionsMu", Immutable);
  ("IRCServer.ConfigMu", Immutable);
  ("IRCServer.lastProcessedMu", Immutable);
  ("IRCServer.ServerPrefix", Immutable);
  ("IRCServer.ServerCreation", Immutable);
  (* ircserver.Session: every field, reached through IRCServer.sessions / nicks *)
  ("Session.Id", g1 sessionsMu);
  ("Session.auth", g1 sessionsMu);
  ("Session.loggedIn", g1 sessionsMu);
  ("Session.Nick", g1 sessionsMu);
  ("Session.Username", g1 sessionsMu);
  ("Session.Realname", g1 sessionsMu);
  ("Session.Channels", g1 sessionsMu);
  ("Session.LastActivity", g1 sessionsMu);
  ("Session.LastNonPing", g1 sessionsMu);
  ("Session.LastSolvedCaptcha", g1 sessionsMu);
  ("Session.Operator", g1 sessionsMu);
  ("Session.AwayMsg", g1 sessionsMu);
  ("Session.Created", g1 sessionsMu);
  ("Session.throttlingExponent", g1 sessionsMu);
  ("Session.invitedTo", g1 sessionsMu);
  ("Session.modes", g1 sessionsMu);
  ("Session.svid", g1 sessionsMu);
  ("Session.Pass", g1 sessionsMu);
  ("Session.Server", g1 sessionsMu);
  ("Session.lastClientMessageId", g1 sessionsMu);
  ("Session.ircPrefix", g1 sessionsMu);
  ("Session.deleted", g1 sessionsMu);
  ("Session.RemoteAddr", g1 sessionsMu);
  (* ircserver.channel: every field, reached through IRCServer.channels *)
  ("channel.name", g1 sessionsMu);
  ("channel.topicNick", g1 sessionsMu);
  ("channel.topicTime", g1 sessionsMu);
  ("channel.topic", g1 sessionsMu);
  ("channel.nicks", g1 sessionsMu);
  ("channel.modes", g1 sessionsMu);
  ("channel.key", g1 sessionsMu);
  ("channel.bans", g1 sessionsMu);
  (* outputstream.OutputStream *)
  ("OutputStream.db", g1 "OutputStream.messagesMu");
  ("OutputStream.batch", g1 "OutputStream.messagesMu");
  ("OutputStream.lastseen", g1 "OutputStream.messagesMu");
  ("OutputStream.closed", g1 "OutputStream.messagesMu");
  ("OutputStream.messagesCache", g1 "OutputStream.cacheMu");
  ("OutputStream.tmpdir", Immutable);
  ("OutputStream.dirname", Immutable);
  ("OutputStream.newMessage", Immutable);
  (* raftstore.LevelDBStore *)
  ("LevelDBStore.db", g1 "LevelDBStore.mu");
  ("LevelDBStore.useProtobuf", Immutable);
  ("LevelDBStore.dir", Immutable);
  (* api.HTTP *)
  ("HTTP.ircServerUnlocked", g1 "HTTP.mu");
  ("HTTP.ircStoreUnlocked", g1 "HTTP.mu");
  ("HTTP.outputUnlocked", g1 "HTTP.mu");
  ("HTTP.getMessagesRequests", g1 "HTTP.getMessagesRequestsMu");
  ("HTTP.lastWrongPassword", g1 "HTTP.throttleMu");
  ("HTTP.throttlingExponent", g1 "HTTP.throttleMu");
  ("HTTP.raftNode", Immutable);
  ("HTTP.transport", Immutable);
  ("HTTP.network", Immutable);
  ("HTTP.networkPassword", Immutable);
  ("HTTP.raftDir", Immutable);
  ("HTTP.peerAddr", Immutable);
  ("HTTP.useProtobuf", Immutable);
  ("HTTP.raftProtocolVersion", Immutable);
  (* main.FSM *)
  ("FSM.sessionExpirationDur", g1 "FSM.sessionExpirationMu");
  ("FSM.ircstore", Guarded ["raft.fsm"; "FSM.restoreMu"]);
  ("FSM.lastSnapshotState", g1 "raft.fsm");
  ("FSM.ReplaceState", g1 "raft.fsm");
  ("FSM.skipDeletionForCanary", g1 "raft.fsm");
  ("FSM.store", Immutable);
  (* package main: the pointers re-assigned by FSM.Restore *)
  ("main.ircServer", Guarded ["raft.fsm"; "FSM.restoreMu"; "main.stateMu"]);
  ("main.outputStream", Guarded ["raft.fsm"; "FSM.restoreMu"; "main.stateMu"]);
  ("main.ircStore", Guarded ["raft.fsm"; "FSM.restoreMu"; "main.stateMu"])
].

Definition guard_map : guard_map_t := assoc_guard guard_list.

(* By-value copies of package-level struct variables containing maps/slices, (variable, function).
   Justification of the single admitted site:
   - NewIRCServer initialises Config with config.DefaultConfig, so every fresh IRCServer shares the map
     DefaultConfig.Banned (the only reference in DefaultConfig) until its Config is replaced.  The only
     writer of Config.Banned is cmdGline, which needs an IRC operator; operators exist only in a
     configuration that was applied (robust.Config entry -> i.Config = config.FromString(..), or
     Unmarshal), and both build a fresh Network with a fresh Banned map.  So no instance ever writes the
     shared default map, PROVIDED config.FromString / Unmarshal do not start from DefaultConfig - which
     is exactly what this list enforces: any further copy site fails the obligation. *)
Definition justified_global_aliases : list (string * string) := [
  ("config.DefaultConfig", "internal/ircserver/ircserver.go:NewIRCServer")
].

(* Instance-consistency sites (function, description) admitted although the scanner cannot see that one
   instance is meant.  None: FSM.refreshSessionExpiration re-reads main.ircServer, but holds raft.fsm and
   FSM.restoreMu there, which inst_ok accepts on its own. *)
Definition justified_instance_mismatches : list (string * string) := [].

