(* Glue between the extracted model and the shell: stdin -> Coq string -> Model.run ->
   stdout.  Coq's [string] is extracted as an inductive over [ascii] (8 booleans). *)
let ascii_of_char (c : char) : Model.ascii =
  let n = Char.code c in
  let b i = (n lsr i) land 1 = 1 in
  Model.Ascii (b 0, b 1, b 2, b 3, b 4, b 5, b 6, b 7)

let char_of_ascii (a : Model.ascii) : char =
  match a with
  | Model.Ascii (b0, b1, b2, b3, b4, b5, b6, b7) ->
    let v b i = if b then 1 lsl i else 0 in
    Char.chr (v b0 0 + v b1 1 + v b2 2 + v b3 3 + v b4 4 + v b5 5 + v b6 6 + v b7 7)

let coq_of_string (s : string) : Model.string =
  let r = ref Model.EmptyString in
  for i = String.length s - 1 downto 0 do
    r := Model.String (ascii_of_char s.[i], !r)
  done;
  !r

let print_coq (s : Model.string) : unit =
  let buf = Buffer.create 65536 in
  let rec go s = match s with
    | Model.EmptyString -> ()
    | Model.String (a, r) -> Buffer.add_char buf (char_of_ascii a); go r in
  go s;
  print_string (Buffer.contents buf)

(* one case per line: the model is run line by line so that recursion depth is bounded by the
   length of a line, not of the whole file *)
let () =
  try
    while true do
      let l = input_line stdin in
      if String.length l > 0 then print_coq (Model.run (coq_of_string (l ^ "\n")))
    done
  with End_of_file -> ()
