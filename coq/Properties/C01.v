(* C01 — replica determinism.  The model is a function of the history (nothing else is an input), and the
   two places where the Go code turns a map into output — recipient sets and sorted listings — are
   independent of the iteration order; loops that mutate state are bulk operations on the maps
   (Irc/Cmds.v remove_nick_everywhere, rename_in_channels).  That no handler emits inside a map loop
   without sorting is checked on the source by the range-site scan and on the implementation by running
   every history on three fresh instances in two processes. *)
From Coq Require Import List NArith Sorting.Permutation.
From RV Require Import Irc.Str Irc.State Irc.Cmds Irc.Apply.
From RV Require Import IrcProofs.Top IrcProofs.Misc.

Theorem C01_model_deterministic : forall e sv es r1 r2, run e sv es = r1 -> run e sv es = r2 -> r1 = r2.
Proof. exact model_deterministic. Qed.
Print Assumptions C01_model_deterministic.

Theorem C01_recipients_order_independent : forall l l', Permutation l l' -> set_of_ids l = set_of_ids l'.
Proof. exact recipients_order_independent. Qed.
Print Assumptions C01_recipients_order_independent.
