(* IrcProofs/Utf8Trim.v — the repair of N6 achieves its purpose (property C15, pure part).

   (1) Cutting well-formed UTF-8 text after any number of bytes and applying trimPartialRune gives well-formed
       text:  utf8 s -> utf8 (trim_partial_rune (stake n s)).
   (2) [json_delivered]: what a client receives for a stored line — encoding/json writes U+FFFD (3 bytes) for
       every byte that is not part of a well-formed sequence (exactly the bytes strings.ToValidUTF8 would drop),
       the client's decoder turns the escape into EF BF BD.  On well-formed text it is the identity; a line cut
       inside a character without the trimming grows (510 -> 516 bytes). *)
From stdpp Require Import gmap.
From Coq Require Import Strings.String Strings.Ascii ZArith NArith Lia.
From RV Require Import Base.Text Irc.Str Irc.Parse.
From RV Require Import IrcProofs.StrLemmas IrcProofs.Utf8.
From RV Require IrcProofs.Trim.
Local Open Scope string_scope.

(* ---- the recogniser as a transition function ------------------------------------------------------------- *)
Fixpoint urun (p : nat) (lo hi : N) (s : string) : option (nat * N * N) :=
  match s with
  | EmptyString => Some (p, lo, hi)
  | String c r =>
      match p with
      | S k => if in_range lo hi (byte_of c) then urun k 128 191 r else None
      | O => match lead_info (byte_of c) with
             | Some (k, lo', hi') => urun k lo' hi' r
             | None => None
             end
      end
  end.

Lemma urun_app p lo hi a b :
  urun p lo hi (a ++ b) = match urun p lo hi a with Some (p', lo', hi') => urun p' lo' hi' b | None => None end.
Proof.
  revert p lo hi. induction a as [|c a IH]; intros p lo hi; [reflexivity|]. rewrite app_cons. cbn [urun].
  destruct p as [|k].
  - destruct (lead_info (byte_of c)) as [[[k lo'] hi']|]; [apply IH|reflexivity].
  - destruct (in_range lo hi (byte_of c)); [apply IH|reflexivity].
Qed.
Lemma chk_urun p lo hi s :
  chk p lo hi s = match urun p lo hi s with Some (0, _, _) => true | _ => false end.
Proof.
  revert p lo hi. induction s as [|c r IH]; intros p lo hi; cbn [chk urun].
  - destruct p; reflexivity.
  - destruct p as [|k].
    + destruct (lead_info (byte_of c)) as [[[k lo'] hi']|]; [apply IH|reflexivity].
    + destruct (in_range lo hi (byte_of c)); [apply IH|reflexivity].
Qed.
Lemma urun_sane s : forall p lo hi p' lo' hi', sane p lo hi -> urun p lo hi s = Some (p', lo', hi') -> sane p' lo' hi'.
Proof.
  induction s as [|c r IH]; intros p lo hi p' lo' hi' Hs H; cbn [urun] in H.
  - injection H as <- <- <-. exact Hs.
  - destruct p as [|k].
    + destruct (lead_info (byte_of c)) as [[[k l1] h1]|] eqn:E; [|discriminate].
      eapply IH; [|exact H]. eapply lead_info_sane; exact E.
    + destruct (in_range lo hi (byte_of c)); [|discriminate]. eapply IH; [|exact H]. right; lia.
Qed.

Lemma lead_info_le3 n k lo hi : lead_info n = Some (k, lo, hi) -> k <= 3.
Proof.
  unfold lead_info. repeat match goal with |- (if ?b then _ else _) = _ -> _ => destruct b end; intros [= <- <- <-]; lia.
Qed.
Lemma lead_info_0_ascii c lo hi : lead_info (byte_of c) = Some (0, lo, hi) -> is_ascii c = true.
Proof.
  unfold lead_info, is_ascii. destruct (byte_of c <? 128)%N; [reflexivity|].
  repeat match goal with |- (if ?b then _ else _) = _ -> _ => destruct b end; intros [= ]; discriminate.
Qed.
Lemma lead_rune_start c x : lead_info (byte_of c) = Some x -> rune_start (byte_of c) = true.
Proof.
  intros H. unfold rune_start. destruct (in_range 128 191 (byte_of c)) eqn:E; [|reflexivity].
  rewrite (cont_not_lead c E) in H. discriminate.
Qed.
Lemma cont_rune_start p lo hi c : sane (S p) lo hi -> in_range lo hi (byte_of c) = true -> rune_start (byte_of c) = false.
Proof.
  intros [Hs|[Hl Hh]] H; [discriminate|]. unfold rune_start. rewrite (in_range_weaken _ _ _ Hl Hh H). reflexivity.
Qed.

(* ---- induction from the right ------------------------------------------------------------------------------- *)
Lemma string_rev_ind (P : string -> Prop) :
  P "" -> (forall a c, P a -> P (a ++ String c "")) -> forall s, P s.
Proof.
  intros H0 Hs s. rewrite <- (srev_involutive s). generalize (srev s). clear s.
  induction s as [|c r IH]; [exact H0|]. rewrite srev_cons. apply Hs. exact IH.
Qed.

(* a prefix of well-formed text that stops inside a character: well-formed text followed by a fragment — a lead byte [l]
   that announces [k] continuation bytes and only [cs], fewer than k, of them *)
Lemma urun_fragment p : forall j lo hi,
  urun 0 0 0 p = Some (S j, lo, hi) ->
  exists t0 l cs k l1 h1, p = t0 ++ String l cs /\ validb t0 = true /\ lead_info (byte_of l) = Some (k, l1, h1) /\
                          urun k l1 h1 cs = Some (S j, lo, hi) /\ slen cs + S j = k.
Proof.
  induction p as [|a c IH] using string_rev_ind; intros j lo hi H; [discriminate|].
  rewrite urun_app in H. destruct (urun 0 0 0 a) as [[[pa la] ha]|] eqn:Ea; [|discriminate]. cbn [urun] in H.
  destruct pa as [|ja].
  - destruct (lead_info (byte_of c)) as [[[k l1] h1]|] eqn:El; [|discriminate]. injection H as -> -> ->.
    exists a, c, "", (S j), lo, hi. split; [reflexivity|]. split; [unfold validb; rewrite chk_urun, Ea; reflexivity|].
    split; [exact El|]. split; reflexivity.
  - destruct (in_range la ha (byte_of c)) eqn:Ei; [|discriminate]. injection H as -> <- <-.
    destruct (IH _ _ _ eq_refl) as (t0 & l & cs & k & l1 & h1 & -> & Hv & El & Hf & Hk).
    exists t0, l, (cs ++ String c ""), k, l1, h1. split; [rewrite append_assoc; reflexivity|]. split; [exact Hv|].
    split; [exact El|]. split; [rewrite urun_app, Hf; cbn [urun]; rewrite Ei; reflexivity|].
    rewrite Trim.slen_app'. cbn [slen String.length]. lia.
Qed.

(* ---- trim_at on a string given as prefix ++ window --------------------------------------------------------- *)
Lemma get_app_exact a x : String.get (slen a) (a ++ x) = String.get 0 x.
Proof. induction a as [|c a IH]; [reflexivity|]. rewrite app_cons. cbn [slen String.length String.get]. exact IH. Qed.
Lemma sdrop_app_exact a x : sdrop (slen a) (a ++ x) = x.
Proof. induction a as [|c a IH]; [reflexivity|]. rewrite app_cons. cbn [slen String.length sdrop]. exact IH. Qed.
Lemma stake_app_exact a x : stake (slen a) (a ++ x) = a.
Proof. induction a as [|c a IH]; [reflexivity|]. rewrite app_cons. cbn [slen String.length stake]. f_equal. exact IH. Qed.

Lemma trim_at_window a c x k next :
  slen (String c x) = k ->
  trim_at (a ++ String c x) k next =
  if rune_start (byte_of c) then (if full_rune (String c x) then a ++ String c x else a) else next.
Proof.
  intros Hk. unfold trim_at. rewrite Trim.slen_app', Hk.
  replace (Nat.leb k (slen a + k)) with true by (symmetry; apply Nat.leb_le; lia).
  replace (slen a + k - k) with (slen a) by lia. cbv zeta. unfold byte_at.
  rewrite get_app_exact, sdrop_app_exact, stake_app_exact. reflexivity.
Qed.

(* the three windows of trim_partial_rune *)
Lemma trim_1 a c : trim_partial_rune (a ++ String c "") =
  if rune_start (byte_of c) then (if full_rune (String c "") then a ++ String c "" else a)
  else trim_at (a ++ String c "") 2 (trim_at (a ++ String c "") 3 (a ++ String c "")).
Proof. unfold trim_partial_rune. rewrite (trim_at_window a c "" 1 _ eq_refl). reflexivity. Qed.

Lemma app_one (a : string) c x : a ++ String c x = (a ++ String c "") ++ x.
Proof. rewrite append_assoc. reflexivity. Qed.

(* a fragment: lead byte and fewer continuation bytes than announced — it is cut off *)
Lemma trim_fragment t0 l cs k l1 h1 j lo hi :
  lead_info (byte_of l) = Some (k, l1, h1) -> urun k l1 h1 cs = Some (S j, lo, hi) -> slen cs + S j = k ->
  trim_partial_rune (t0 ++ String l cs) = t0.
Proof.
  intros El Hf Hk. pose proof (lead_info_le3 _ _ _ _ El) as H3. pose proof (lead_info_sane _ _ _ _ El) as Hs.
  destruct cs as [|c1 [|c2 [|c3 cs']]]; cbn [slen String.length] in Hk; try lia.
  - (* lead byte alone *)
    subst k. rewrite trim_1, (lead_rune_start _ _ El). unfold full_rune. rewrite El. cbn [slen String.length Nat.leb]. reflexivity.
  - (* lead byte and one continuation byte, at least two announced *)
    subst k. cbn [urun] in Hf. destruct (in_range l1 h1 (byte_of c1)) eqn:E1; [|discriminate].
    rewrite (app_one t0 l), trim_1, (cont_rune_start _ _ _ _ Hs E1). rewrite <- (app_one t0 l).
    rewrite (trim_at_window t0 l (String c1 "") 2 _ eq_refl), (lead_rune_start _ _ El).
    unfold full_rune. rewrite El, E1. cbn [slen String.length Nat.leb negb]. reflexivity.
  - (* lead byte and two continuation bytes, three announced *)
    subst k. cbn [urun] in Hf. destruct (in_range l1 h1 (byte_of c1)) eqn:E1; [|discriminate].
    destruct (in_range 128 191 (byte_of c2)) eqn:E2; [|discriminate].
    assert (rune_start (byte_of c2) = false) as R2 by (unfold rune_start; rewrite E2; reflexivity).
    rewrite (app_one t0 l), (app_one (t0 ++ String l "") c1), trim_1, R2.
    rewrite <- (app_one (t0 ++ String l "") c1).
    rewrite (trim_at_window (t0 ++ String l "") c1 (String c2 "") 2 _ eq_refl), (cont_rune_start _ _ _ _ Hs E1).
    rewrite <- (app_one t0 l).
    rewrite (trim_at_window t0 l (String c1 (String c2 "")) 3 _ eq_refl), (lead_rune_start _ _ El).
    unfold full_rune. rewrite El, E1, E2. cbn [slen String.length Nat.leb negb]. reflexivity.
Qed.

(* a complete last character is kept *)
Lemma trim_complete t0 l cs k l1 h1 c lo hi :
  lead_info (byte_of l) = Some (k, l1, h1) -> urun k l1 h1 cs = Some (1, lo, hi) -> slen cs + 1 = k ->
  in_range lo hi (byte_of c) = true ->
  trim_partial_rune (t0 ++ String l (cs ++ String c "")) = t0 ++ String l (cs ++ String c "").
Proof.
  intros El Hf Hk Ec. pose proof (lead_info_le3 _ _ _ _ El) as H3. pose proof (lead_info_sane _ _ _ _ El) as Hs.
  assert (sane 1 lo hi) as Hsc by (eapply (urun_sane cs k l1 h1); [exact Hs|exact Hf]).
  pose proof (cont_rune_start _ _ _ _ Hsc Ec) as Rc.
  destruct cs as [|c1 [|c2 [|c3 cs']]]; cbn [slen String.length] in Hk; try lia.
  - subst k. change ("" ++ String c "") with (String c "").
    rewrite (app_one t0 l), trim_1, Rc. rewrite <- (app_one t0 l).
    rewrite (trim_at_window t0 l (String c "") 2 _ eq_refl), (lead_rune_start _ _ El).
    unfold full_rune. rewrite El. cbn [slen String.length Nat.leb]. reflexivity.
  - subst k. cbn [urun] in Hf. destruct (in_range l1 h1 (byte_of c1)) eqn:E1; [|discriminate].
    rewrite !app_cons. change ("" ++ String c "") with (String c "").
    rewrite (app_one t0 l), (app_one (t0 ++ String l "") c1), trim_1, Rc.
    rewrite <- (app_one (t0 ++ String l "") c1).
    rewrite (trim_at_window (t0 ++ String l "") c1 (String c "") 2 _ eq_refl), (cont_rune_start _ _ _ _ Hs E1).
    rewrite <- (app_one t0 l).
    rewrite (trim_at_window t0 l (String c1 (String c "")) 3 _ eq_refl), (lead_rune_start _ _ El).
    unfold full_rune. rewrite El. cbn [slen String.length Nat.leb]. reflexivity.
  - subst k. cbn [urun] in Hf. destruct (in_range l1 h1 (byte_of c1)) eqn:E1; [|discriminate].
    destruct (in_range 128 191 (byte_of c2)) eqn:E2; [|discriminate].
    assert (rune_start (byte_of c2) = false) as R2 by (unfold rune_start; rewrite E2; reflexivity).
    rewrite !app_cons. change ("" ++ String c "") with (String c "").
    rewrite (app_one t0 l), (app_one (t0 ++ String l "") c1), (app_one ((t0 ++ String l "") ++ String c1 "") c2), trim_1, Rc.
    rewrite <- (app_one ((t0 ++ String l "") ++ String c1 "") c2).
    rewrite (trim_at_window ((t0 ++ String l "") ++ String c1 "") c2 (String c "") 2 _ eq_refl), R2.
    rewrite <- (app_one (t0 ++ String l "") c1).
    rewrite (trim_at_window (t0 ++ String l "") c1 (String c2 (String c "")) 3 _ eq_refl), (cont_rune_start _ _ _ _ Hs E1).
    reflexivity.
Qed.

(* trimPartialRune leaves well-formed text alone *)
Lemma trim_valid t : utf8 t -> trim_partial_rune t = t.
Proof.
  rewrite utf8_iff. unfold validb. rewrite chk_urun. destruct t as [|a c _] using string_rev_ind; [reflexivity|].
  rewrite urun_app. destruct (urun 0 0 0 a) as [[[pa la] ha]|] eqn:Ea; [|discriminate]. cbn [urun]. destruct pa as [|ja].
  - destruct (lead_info (byte_of c)) as [[[k l1] h1]|] eqn:El; [|discriminate]. destruct k; [|discriminate]. intros _.
    pose proof (lead_info_0_ascii _ _ _ El) as Hc. rewrite trim_1, (lead_rune_start _ _ El).
    rewrite Trim.full_rune_ascii; [reflexivity|]. unfold is_ascii in Hc. apply N.ltb_lt. exact Hc.
  - destruct (in_range la ha (byte_of c)) eqn:Ec; [|discriminate]. destruct ja; [|discriminate]. intros _.
    destruct (urun_fragment a _ _ _ Ea) as (t0 & l & cs & k & l1 & h1 & -> & _ & El & Hf & Hk).
    rewrite append_assoc, app_cons. eapply trim_complete; eauto.
Qed.

(* (1) cut anywhere, trim: well-formed *)
Theorem utf8_trim_stake n s : utf8 s -> utf8 (trim_partial_rune (stake n s)).
Proof.
  intros Hs. pose proof Hs as Hv. rewrite utf8_iff in Hv. unfold validb in Hv. rewrite (stake_sdrop n s) in Hv.
  rewrite chk_urun, urun_app in Hv. destruct (urun 0 0 0 (stake n s)) as [[[p lo] hi]|] eqn:Ep; [|discriminate].
  destruct p as [|j].
  - assert (utf8 (stake n s)) as Hp by (apply utf8_iff; unfold validb; rewrite chk_urun, Ep; reflexivity).
    rewrite (trim_valid _ Hp). exact Hp.
  - destruct (urun_fragment _ _ _ _ Ep) as (t0 & l & cs & k & l1 & h1 & E & Ht0 & El & Hf & Hk). rewrite E.
    rewrite (trim_fragment t0 l cs k l1 h1 j lo hi El Hf Hk). apply utf8_iff. exact Ht0.
Qed.

Corollary utf8_trim t : utf8 t -> utf8 (trim_partial_rune t).
Proof. intros H. rewrite (trim_valid t H). exact H. Qed.

(* ---- (2) what the JSON encoder and the client's decoder make of a stored line -------------------------- *)
(* [fffd], [json_delivered_aux], [json_delivered] are defined in Irc/Str.v (the model driver evaluates them against the real encoder) *)

Lemma chk_json_fix s : forall k lo hi, chk k lo hi s = true -> json_delivered_aux k s = s.
Proof.
  induction s as [|c r IH]; intros k lo hi H; [reflexivity|]. destruct k as [|k]; cbn [chk json_delivered_aux] in *.
  - destruct (lead_info (byte_of c)) as [[[k lo'] hi']|]; [|discriminate].
    rewrite (proj1 (chk_tvu_fix r _ _ _ H)), (IH _ _ _ H). reflexivity.
  - apply andb_true_iff in H. destruct H as [_ H2]. rewrite (IH _ _ _ H2). reflexivity.
Qed.
Theorem json_delivered_utf8 s : utf8 s -> json_delivered s = s.
Proof. rewrite utf8_iff. apply chk_json_fix. Qed.

(* the bytes it replaces are exactly the bytes strings.ToValidUTF8 drops: erasing the replacement characters' positions
   gives to_valid_utf8 — stated as: both walk the string with the same decisions *)
Lemma json_delivered_keeps_valid_bytes s : forall k, slen (to_valid_utf8_aux k s) <= slen (json_delivered_aux k s).
Proof.
  induction s as [|c r IH]; intros k; [cbn; lia|]. destruct k as [|k]; cbn [to_valid_utf8_aux json_delivered_aux].
  - destruct (lead_info (byte_of c)) as [[[k lo] hi]|]; [destruct (conts_ok k lo hi r)|];
      rewrite ?Trim.slen_app'; cbn [slen String.length fffd]; specialize (IH 0) as I0; try specialize (IH k); unfold slen in *; lia.
  - cbn [slen String.length]. specialize (IH k). unfold slen in *. lia.
Qed.

(* ---- the defect and its repair on a concrete line --------------------------------------------------------- *)
Fixpoint srepeat (n : nat) (c : ascii) : string := match n with O => "" | S k => String c (srepeat k c) end.
(* 507 ASCII bytes followed by U+1F600 (F0 9F 98 80): the 510-byte cut keeps three of its four bytes *)
Definition long_line : string := srepeat 507 "a" ++ "😀 and more".

Example long_line_utf8 : validb long_line = true.
Proof. vm_compute. reflexivity. Qed.
Example cut_grows : slen (stake 510 long_line) = 510 /\ slen (json_delivered (stake 510 long_line)) = 516.
Proof. vm_compute. split; reflexivity. Qed.
Example trimmed_does_not_grow :
  slen (trim_partial_rune (stake 510 long_line)) = 507 /\
  json_delivered (trim_partial_rune (stake 510 long_line)) = trim_partial_rune (stake 510 long_line).
Proof. vm_compute. split; reflexivity. Qed.
Example cut_not_utf8 : ~ utf8 (stake 510 long_line).
Proof. intros H. apply utf8_iff in H. vm_compute in H. discriminate. Qed.
