(* Api/ApiDriver.v — case-file driver of the API models (kinds uint, api, post, cfg).
   Byte strings are hex ("-" = empty, "!" = absent).  The oracles (encoding/json, toml,
   which sessions die while an entry is processed) arrive with the case, taken by the
   harness from the implementation's own trace.

   uint <shex>                                          ->  uint <n|!>
   api <meth> <path> <hdr|!> <user.pass|!> <jp> <jd> <leader> <pw> <lastproc> {<id>.<auth>.<alive>.<lpm>}*
        jp = <data>.<cmid> | !  (json oracle for the POST body), jd = <quit> | ! (DELETE body)
                                                        ->  api class=<c> status=<n|*> grew=<n|*> h=<handler> sid=<n|->
   post <leader> <op>*   C:<id>:<auth>  P:<sid>:<jp>:<deaths>  Q:<sid>:<cmid>:<data>:<deaths>  X:<sid>:<cmid>  D:<sid>:<jd>:<deaths>  K:<sid>:<deaths>  S
                                                        ->  post <obs>* E:<entries>:<id.alive.lpm,...>
   cfg <rev> <base> <banned> <op>*   F:<hdr|!>:<body>:<tp>  H:<rev>:<body>:<tp>  B:<addr>:<reason>  O  S
        tp = <base>/<banned> | !      banned = <addr>=<reason>,... | -
                                                        ->  cfg <obs>* *)
From RV Require Import Base.Text Api.Auth Api.Post Api.ConfigPost.
Local Open Scope string_scope.

Definition colon (s : string) : list string := split_on ":"%char s.
Definition dot (s : string) : list string := split_on "."%char s.
Definition comma (s : string) : list string := if String.eqb s "-" then [] else split_on ","%char s.
Definition nth_s (l : list string) (i : nat) : string := nth i l EmptyString.
Definition N_of (s : string) : N := match N_of_dec s with Some n => n | None => 0%N end.
Definition is_bang (s : string) : bool := String.eqb s "!".
Definition opt_hex (s : string) : option string := if is_bang s then None else Some (unhex_field s).
Definition show_optN (o : option N) : string := match o with Some n => dec_of_N n | None => "-" end.

(* ---- uint ------------------------------------------------------------------------------------ *)
Definition run_uint (f : list string) : string :=
  "uint " ++ match parse_uint0 (unhex_field (nth_field f 1)) with Some n => dec_of_N n | None => "!" end.

(* ---- api ------------------------------------------------------------------------------------- *)
Definition parse_sess (s : string) : N * sess :=
  let p := dot s in
  (N_of (nth_s p 0), mkSess (unhex_field (nth_s p 1)) (String.eqb (nth_s p 2) "1") (N_of (nth_s p 3))).

(* jp: "<data>.<cmid>" or "!" *)
Definition parse_jp (s : string) : option (string * N) :=
  if is_bang s then None else let p := dot s in Some (unhex_field (nth_s p 0), N_of (nth_s p 1)).

Definition refusal_name (r : refusal) : string :=
  match r with
  | RInvalidSession => "invalid-session"
  | RNoHeader => "no-header"
  | RNoSuch => "nosuch"
  | RNotYet => "notyet"
  | RBadAuth => "bad-auth"
  end.

Definition is_get_page (h : string) : bool :=
  existsb (String.eqb h)
    ["handleStatus"; "handleStatusSessions"; "handleStatusState"; "handleLeader"; "handleGetConfig";
     "promhttp.Handler().ServeHTTP"].   (* pages that take no parameters: 200; the others choose their own status *)

Definition run_api (f : list string) : string :=
  let meth := nth_field f 1 in
  let path := unhex_field (nth_field f 2) in
  let hdr := opt_hex (nth_field f 3) in
  let basic := if is_bang (nth_field f 4) then None
               else let p := dot (nth_field f 4) in Some (unhex_field (nth_s p 0), unhex_field (nth_s p 1)) in
  let jp := parse_jp (nth_field f 5) in
  let jd := opt_hex (nth_field f 6) in
  let leader := String.eqb (nth_field f 7) "1" in
  let st := mkState (map parse_sess (skipn 10 f)) (N_field f 9) (unhex_field (nth_field f 8)) leader in
  let q := mkReq meth path hdr basic EmptyString in
  let out (c st' g h sid : string) := "api class=" ++ c ++ " status=" ++ st' ++ " grew=" ++ g ++ " h=" ++ h ++ " sid=" ++ sid in
  match serve model_mux model_routes st q with
  | Handled h sid =>
      let sids := show_optN sid in
      if String.eqb h "handleCreateSession" then
        (if leader then out "handled" "200" "1" h sids else out "proxied" "*" "*" h sids)
      else if String.eqb h "handlePostMessage" then
        match sid with
        | Some id =>
            match post_handler (fun _ => jp) st id EmptyString with
            | PBadRequest => out "handled" "400" "0" h sids
            | PAck => out "handled" "200" "0" h sids
            | PProxy => out "proxied" "*" "*" h sids
            | PPropose _ => out "handled" "200" "1" h sids
            end
        | None => out "handled" "*" "*" h sids
        end
      else if String.eqb h "handleGetMessages" then out "handled" "200" "0" h sids
      else if String.eqb h "handleDeleteSession" then
        match jd with
        | None => out "handled" "500" "0" h sids
        | Some _ => if leader then out "handled" "200" "1" h sids else out "proxied" "*" "*" h sids
        end
      else if is_get_page h then out "handled" "200" "0" h sids
      else if String.eqb h "http.DefaultServeMux.ServeHTTP" then out "handled" "*" "0" h sids
      else out "handled" "*" "*" h sids
  | Refused r c => out (refusal_name r) (dec_of_N c) "0" "-" "-"
  | Proxied => out "proxied" "*" "*" "-" "-"
  | Unauthorized => out "unauthorized" "401" "0" "-" "-"
  | NotFound => out "notfound" "404" "0" "-" "-"
  | Foreign w => out "foreign" "*" "*" w "-"
  | Panics => out "panic" "*" "*" "-" "-"
  end.

(* ---- post ------------------------------------------------------------------------------------ *)
Definition parse_deaths (s : string) : list N := map N_of (comma s).
Definition snoc (l : list string) (x : string) : list string := app l (cons x nil).
Definition b01 (b : bool) : string := if b then "1" else "0".

Definition auth_in (st : state) (id : N) : option string :=
  match lookup id (st_sessions st) with Some s => Some (s_auth s) | None => None end.

Definition show_markers (st : state) : string :=
  match st_sessions st with
  | [] => "-"
  | l => sjoin "," (map (fun ks => dec_of_N (fst ks) ++ "." ++ b01 (is_live st (fst ks)) ++ "." ++ dec_of_N (last_post st (fst ks)))
                        (rev l))
  end.

Definition id_restore (st : state) : state := st.

Definition post_op (acc : sys * list string) (tok : string) : sys * list string :=
  let '(s, outs) := acc in
  let a := colon tok in
  let k := nth_s a 0 in
  let st := s_node s in
  if String.eqb k "C" then
    let e := mkEntry ECreate (N_of (nth_s a 1)) 0 0 (unhex_field (nth_s a 2)) 0 in
    (step (fun _ => None) id_restore s (EvApply e (mkOracle [] true)), snoc outs ("C"))
  else if String.eqb k "P" then
    let sid := N_of (nth_s a 1) in
    let jp := parse_jp (nth_s a 2) in
    let o := mkOracle (parse_deaths (nth_s a 3)) true in
    let hdr := auth_in st sid in
    let res :=
      match session_check st hdr (dec_of_N sid) with
      | inr _ => "refused:-"
      | inl id =>
          match post_handler (fun _ => jp) st id EmptyString with
          | PBadRequest => "bad:-"
          | PAck => "ack:-"
          | PProxy => "proxy:-"
          | PPropose e => "prop:" ++ hex_field (e_data e)
          end
      end in
    let s' := step (fun _ => jp) id_restore s (EvPost (dec_of_N sid) hdr EmptyString o) in
    (s', snoc outs ("P:" ++ res ++ ":" ++ dec_of_N (last_post (s_node s') sid) ++ ":" ++ b01 (is_live (s_node s') sid)))
  else if String.eqb k "X" then
    let sid := N_of (nth_s a 1) in
    let e := mkEntry EMod 0 sid (N_of (nth_s a 2)) EmptyString 0 in
    let s' := step (fun _ => None) id_restore s (EvApply e (mkOracle [] true)) in
    (s', snoc outs ("X:" ++ dec_of_N (last_post (s_node s') sid) ++ ":" ++ b01 (is_live (s_node s') sid)))
  else if String.eqb k "Q" then
    (* a raw IRCFromClient entry committed by other means (a second copy proposed by a lagging handler) *)
    let sid := N_of (nth_s a 1) in
    let e := mkEntry EIrc (next_index s) sid (N_of (nth_s a 2)) (unhex_field (nth_s a 3)) 0 in
    let o := mkOracle (parse_deaths (nth_s a 4)) true in
    let res := if processes st e then "proc" else "skip" in
    let s' := step (fun _ => None) id_restore s (EvApply e o) in
    (s', snoc outs ("Q:" ++ res ++ ":" ++ dec_of_N (last_post (s_node s') sid) ++ ":" ++ b01 (is_live (s_node s') sid)))
  else if String.eqb k "D" then
    let sid := N_of (nth_s a 1) in
    let o := mkOracle (parse_deaths (nth_s a 3)) true in
    match session_check st (auth_in st sid) (dec_of_N sid) with
    | inr _ => (s, snoc outs ("D:refused:" ++ b01 (is_live st sid)))
    | inl id =>
        (* through the model of handleDeleteSession; the json oracle is the case's jd field *)
        let jd := if is_bang (nth_s a 2) then None else Some (unhex_field (nth_s a 2)) in
        match delete_handler (fun _ => jd) st id EmptyString with
        | PPropose e =>
            let e' := with_id e (next_index s) in
            let s' := step (fun _ => None) id_restore s (EvApply e' o) in
            (s', snoc outs ("D:ok:" ++ hex_field (e_data e) ++ ":" ++ b01 (is_live (s_node s') sid)))
        | PProxy => (s, snoc outs ("D:proxy:" ++ b01 (is_live st sid)))
        | _ => (s, snoc outs ("D:bad:" ++ b01 (is_live st sid)))
        end
    end
  else if String.eqb k "K" then
    (* an entry of another kind (e.g. POST /kill, expiry) that removes sessions *)
    let sid := N_of (nth_s a 1) in
    let e := mkEntry EDelete (next_index s) sid 0 EmptyString 0 in
    (step (fun _ => None) id_restore s (EvApply e (mkOracle (parse_deaths (nth_s a 2)) true)), snoc outs ("K"))
  else if String.eqb k "S" then
    (step (fun _ => None) id_restore s EvRestore, snoc outs ("S"))
  else (s, snoc outs ("?")).

Definition run_post (f : list string) : string :=
  let leader := String.eqb (nth_field f 1) "1" in
  let s0 := mkSys [] (mkState [] 0 EmptyString leader) [] in
  let '(s, outs) := fold_left post_op (skipn 2 f) (s0, []) in
  sjoin " " ("post" :: snoc outs ("E:" ++ dec_of_nat (List.length (s_log s)) ++ ":" ++ show_markers (s_node s))).

(* ---- cfg -------------------------------------------------------------------------------------- *)
Definition parse_banned (s : string) : list (string * string) :=
  map (fun kv => let p := split_on "="%char kv in (unhex_field (nth_s p 0), unhex_field (nth_s p 1))) (comma s).
Definition show_banned (l : list (string * string)) : string :=
  match l with
  | [] => "-"
  | _ => sjoin "," (map (fun kv => hex_field (fst kv) ++ "=" ++ hex_field (snd kv)) l)
  end.
(* tp: "<base>/<banned>" or "!" *)
Definition parse_tp (s : string) : option (string * list (string * string)) :=
  if is_bang s then None
  else let p := split_on "/"%char s in Some (nth_s p 0, parse_banned (nth_s p 1)).

Definition show_c (st : cstate string) : string :=
  dec_of_N (cs_rev st) ++ ":" ++ cs_base st ++ ":" ++ show_banned (cs_banned st).

Definition cfg_op (acc : cstate string * list string) (tok : string) : cstate string * list string :=
  let '(st, outs) := acc in
  let a := colon tok in
  let k := nth_s a 0 in
  if String.eqb k "F" then
    let hdr := if is_bang (nth_s a 1) then EmptyString else unhex_field (nth_s a 1) in
    let body := unhex_field (nth_s a 2) in
    let tp := parse_tp (nth_s a 3) in
    let res := match post_config string (fun _ => tp) st hdr body with
               | CBadHeader => "badhdr"
               | CBadToml => "badtoml"
               | CProxy => "proxy"
               | CMismatch _ _ => "mismatch"
               | CPropose _ _ => "acc"
               end in
    let st' := cfg_step string (fun _ => tp) st hdr body in
    (st', snoc outs ("F:" ++ res ++ ":" ++ show_c st'))
  else if String.eqb k "H" then
    (* a raw Config entry with a chosen revision, committed by whatever means *)
    let rev := N_of (nth_s a 1) in
    let body := unhex_field (nth_s a 2) in
    let tp := parse_tp (nth_s a 3) in
    let e := CEConfig body rev in
    let res := if takes_effect string (fun _ => tp) st e then "eff" else "skip" in
    let st' := capply string (fun _ => tp) st e in
    (st', snoc outs ("H:" ++ res ++ ":" ++ show_c st'))
  else if String.eqb k "B" then
    let st' := capply string (fun _ => None) st (CEGline (unhex_field (nth_s a 1)) (unhex_field (nth_s a 2))) in
    (st', snoc outs ("B:" ++ show_c st'))
  else if String.eqb k "O" then
    (capply string (fun _ => None) st CEOther, snoc outs ("O:" ++ show_c st))
  else if String.eqb k "S" then (st, snoc outs ("S:" ++ show_c st))
  else (st, snoc outs ("?")).

Definition run_cfg (f : list string) : string :=
  let st0 := mkC (N_field f 1) (nth_field f 2) (parse_banned (nth_field f 3)) true in
  let '(_, outs) := fold_left cfg_op (skipn 4 f) (st0, []) in
  sjoin " " ("cfg" :: outs).

Definition run_line (f : list string) : string :=
  let k := nth_field f 0 in
  if String.eqb k "api" then run_api f
  else if String.eqb k "post" then run_post f
  else if String.eqb k "cfg" then run_cfg f
  else if String.eqb k "uint" then run_uint f
  else "unknown-api-kind".
