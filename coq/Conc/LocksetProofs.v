(* Proofs about Conc/Lockset.v: a summary table satisfying discipline_ok admits no data race
   (every pair of conflicting accesses is ordered by happens-before), for traces of any length
   and any number of threads. *)
From Coq Require Import String List Bool Arith Lia.
From RV Require Import Conc.Lockset.
Import ListNotations.
Local Open Scope string_scope.
Local Open Scope list_scope.

(* ------------------------------------------------------------------ state_at *)

Lemma firstn_snoc {A} (l : list A) n x :
  nth_error l n = Some x -> firstn (S n) l = firstn n l ++ [x].
Proof.
  revert n. induction l as [|a l IH]; intros [|n] H; simpl in *; try discriminate.
  - now inversion H.
  - now rewrite (IH n H).
Qed.

Lemma state_at_S tr n te :
  nth_error tr n = Some te -> state_at tr (S n) = step (state_at tr n) te.
Proof.
  intros H. unfold state_at. rewrite (firstn_snoc _ _ _ H), fold_left_app. reflexivity.
Qed.

Lemma state_at_0 tr : state_at tr 0 = [].
Proof. reflexivity. Qed.

Lemma nth_error_lt {A} (l : list A) n x : nth_error l n = Some x -> n < length l.
Proof. intros H. apply nth_error_Some. now rewrite H. Qed.

Lemma nth_error_some_of_lt {A} (l : list A) n : n < length l -> exists x, nth_error l n = Some x.
Proof.
  intros H. destruct (nth_error l n) eqn:E; [eauto|].
  apply nth_error_None in E. lia.
Qed.

(* ------------------------------------------------------------------ remove_one *)

Lemma In_remove_one h h' s : In h (remove_one h' s) -> In h s.
Proof.
  induction s as [|x r IH]; simpl; [tauto|].
  destruct (holding_eq_dec h' x); simpl; intuition.
Qed.

Lemma remove_one_other h h' s : h <> h' -> In h s -> In h (remove_one h' s).
Proof.
  intros Hne. induction s as [|x r IH]; simpl; [tauto|].
  intros [->|Hin].
  - destruct (holding_eq_dec h' h); [congruence|now left].
  - destruct (holding_eq_dec h' x); [exact Hin|right; auto].
Qed.

(* ------------------------------------------------------------------ RWMutex invariant *)

(* two holdings of the same lock by different threads are both shared *)
Definition consistent (s : state) : Prop :=
  forall t1 t2 l m1 m2, In (t1, l, m1) s -> In (t2, l, m2) s -> t1 <> t2 -> m1 = Sh /\ m2 = Sh.

Lemma consistent_step s te : consistent s -> step_ok s te -> consistent (step s te).
Proof.
  intros Hc Hok. destruct te as [t [l m|l m|f k]]; simpl in *.
  - (* Acq *)
    intros t1 t2 l' m1 m2 [E1|H1] [E2|H2] Hne.
    + inversion E1; inversion E2; subst. congruence.
    + inversion E1; subst. destruct m1; simpl in Hok.
      * destruct m2; [auto|]. exfalso. eapply Hok; eauto.
      * exfalso. eapply Hok; eauto.
    + inversion E2; subst. destruct m2; simpl in Hok.
      * destruct m1; [auto|]. exfalso. eapply Hok; eauto.
      * exfalso. eapply Hok; eauto.
    + eapply Hc; eauto.
  - (* Rel *)
    intros t1 t2 l' m1 m2 H1 H2 Hne.
    apply In_remove_one in H1. apply In_remove_one in H2. eapply Hc; eauto.
  - exact Hc.
Qed.

Lemma wf_consistent tr : wf tr -> forall n, n <= length tr -> consistent (state_at tr n).
Proof.
  intros Hwf. induction n as [|n IH]; intros Hn.
  - rewrite state_at_0. intros ? ? ? ? ? [].
  - destruct (nth_error_some_of_lt tr n) as [te Hte]; [lia|].
    rewrite (state_at_S _ _ _ Hte). apply consistent_step; [apply IH; lia|].
    apply Hwf. exact Hte.
Qed.

(* "a well-formed trace never has an exclusive holder together with any other holder of the same lock" *)
Lemma wf_exclusive tr n t1 t2 l m :
  wf tr -> n <= length tr ->
  In (t1, l, Ex) (state_at tr n) -> In (t2, l, m) (state_at tr n) -> t1 = t2.
Proof.
  intros Hwf Hn H1 H2. destruct (Nat.eq_dec t1 t2) as [|Hne]; [assumption|].
  destruct (wf_consistent tr Hwf n Hn _ _ _ _ _ H1 H2 Hne) as [E _]. discriminate.
Qed.

(* ------------------------------------------------------------------ acquire / release between two points *)

Lemma acq_between tr h i j :
  i <= j -> j <= length tr -> ~ In h (state_at tr i) -> In h (state_at tr j) ->
  exists a, i <= a /\ a < j /\
            nth_error tr a = Some (fst (fst h), Acq (snd (fst h)) (snd h)).
Proof.
  intros Hij. induction Hij as [|j Hij IH]; intros Hlen Hni Hin.
  - contradiction.
  - destruct (nth_error_some_of_lt tr j) as [te Hte]; [lia|].
    rewrite (state_at_S _ _ _ Hte) in Hin.
    destruct (in_dec holding_eq_dec h (state_at tr j)) as [Hj|Hj].
    + destruct IH as [a [Ha1 [Ha2 Ha3]]]; [lia|assumption|assumption|].
      exists a. repeat split; [assumption|lia|assumption].
    + exists j. repeat split; [assumption|lia|].
      destruct te as [t [l m|l m|f k]]; simpl in Hin.
      * destruct Hin as [E|Hin]; [|contradiction]. subst h. simpl. exact Hte.
      * apply In_remove_one in Hin. contradiction.
      * contradiction.
Qed.

Lemma rel_between tr h i a :
  i <= a -> a <= length tr -> In h (state_at tr i) -> ~ In h (state_at tr a) ->
  exists r, i <= r /\ r < a /\
            nth_error tr r = Some (fst (fst h), Rel (snd (fst h)) (snd h)).
Proof.
  intros Hia. induction Hia as [|a Hia IH]; intros Hlen Hin Hni.
  - contradiction.
  - destruct (nth_error_some_of_lt tr a) as [te Hte]; [lia|].
    rewrite (state_at_S _ _ _ Hte) in Hni.
    destruct (in_dec holding_eq_dec h (state_at tr a)) as [Ha|Ha].
    + exists a. repeat split; [assumption|lia|].
      destruct te as [t [l m|l m|f k]]; simpl in Hni.
      * exfalso. apply Hni. now right.
      * destruct (holding_eq_dec h (t, l, m)) as [E|E].
        -- subst h. simpl. exact Hte.
        -- exfalso. apply Hni. now apply remove_one_other.
      * contradiction.
    + destruct IH as [r [Hr1 [Hr2 Hr3]]]; [lia|assumption|assumption|].
      exists r. repeat split; [assumption|lia|assumption].
Qed.

(* ------------------------------------------------------------------ the lock orders conflicting holdings *)

Lemma lock_orders tr i j t1 t2 l a1 a2 :
  wf tr -> i <= j -> j <= length tr -> t1 <> t2 -> (a1 = Ex \/ a2 = Ex) ->
  In (t1, l, a1) (state_at tr i) -> In (t2, l, a2) (state_at tr j) ->
  exists r a, i <= r /\ r < a /\ a < j /\
              nth_error tr r = Some (t1, Rel l a1) /\ nth_error tr a = Some (t2, Acq l a2).
Proof.
  intros Hwf Hij Hlen Hne Hex H1 H2.
  (* t2 does not hold (l,a2) at i: it would coexist with t1's conflicting holding *)
  assert (Hn2 : ~ In (t2, l, a2) (state_at tr i)).
  { intros H. destruct (wf_consistent tr Hwf i ltac:(lia) _ _ _ _ _ H1 H Hne) as [E1 E2].
    destruct Hex; congruence. }
  destruct (acq_between tr (t2, l, a2) i j Hij Hlen Hn2 H2) as [a [Ha1 [Ha2 Ha3]]]. simpl in Ha3.
  (* at the acquisition, t1 holds nothing conflicting *)
  assert (Hok := Hwf a _ Ha3). simpl in Hok.
  assert (Hn1 : ~ In (t1, l, a1) (state_at tr a)).
  { destruct a2; simpl in Hok.
    - destruct Hex as [->|E]; [apply Hok|discriminate].
    - apply Hok. }
  destruct (rel_between tr (t1, l, a1) i a Ha1 ltac:(lia) H1 Hn1) as [r [Hr1 [Hr2 Hr3]]]. simpl in Hr3.
  exists r, a. repeat split; assumption.
Qed.

(* ------------------------------------------------------------------ from the table to real holdings *)

Lemma holds_mode_In held l need :
  holds_mode held l need = true -> exists m, In (l, m) held /\ mode_geb m need = true.
Proof.
  unfold holds_mode. rewrite existsb_exists. intros [[l' m] [Hin H]]. simpl in H.
  apply andb_true_iff in H. destruct H as [El Hm]. apply String.eqb_eq in El. subst l'. eauto.
Qed.

(* an entry that lists l with mode >= need, instantiated in state s by thread t, yields a real holding *)
Lemma entry_holding s t e l need :
  (forall l m, In (l, m) (e_held e) -> holds s t l m) ->
  holds_mode (e_held e) l need = true ->
  exists a, In (t, l, a) s /\ (need = Ex -> a = Ex).
Proof.
  intros Hh Hm. destruct (holds_mode_In _ _ _ Hm) as [m [Hin Hge]].
  destruct (Hh _ _ Hin) as [Hx|[-> Hs]].
  - exists Ex. split; [assumption|reflexivity].
  - exists Sh. split; [assumption|]. intros ->. discriminate.
Qed.

Lemma written_of_entry S e : In e S -> e_kind e = Wr -> written S (e_field e) = true.
Proof.
  intros Hin Hk. unfold written. apply existsb_exists. exists e. split; [assumption|].
  rewrite String.eqb_refl, Hk. reflexivity.
Qed.

(* the heart: a write entry and any other entry on the same field share a guard lock, the write
   side exclusively *)
Lemma common_lock gm S ew eo :
  discipline_ok gm S = true -> In ew S -> In eo S ->
  e_kind ew = Wr -> e_field eo = e_field ew ->
  exists l, holds_mode (e_held ew) l Ex = true /\ holds_mode (e_held eo) l Sh = true /\
            (e_kind eo = Wr -> holds_mode (e_held eo) l Ex = true).
Proof.
  unfold discipline_ok. rewrite forallb_forall. intros Hd Hw Ho Hkw Hf.
  assert (Okw := Hd _ Hw). assert (Oko := Hd _ Ho).
  unfold entry_ok in Okw, Oko. rewrite Hf in Oko.
  destruct (gm (e_field ew)) as [[ls|]|]; try discriminate.
  - rewrite Hkw in Okw. apply andb_true_iff in Okw. destruct Okw as [Hnn Hall].
    rewrite forallb_forall in Hall.
    destruct (e_kind eo) eqn:Hko.
    + (* other side reads: the field is written in S, so it holds one of the guards *)
      rewrite (written_of_entry S ew Hw Hkw) in Oko. simpl in Oko.
      apply existsb_exists in Oko. destruct Oko as [l [Hl Hh]].
      exists l. repeat split; [apply Hall; assumption|assumption|discriminate].
    + (* other side writes: it holds all guards exclusively; pick the first *)
      apply andb_true_iff in Oko. destruct Oko as [_ Hall2]. rewrite forallb_forall in Hall2.
      destruct ls as [|l ls]; [discriminate|].
      assert (Hl : In l (l :: ls)) by now left.
      exists l. repeat split; [apply Hall; assumption| |intros _; apply Hall2; assumption].
      assert (H := Hall2 _ Hl). unfold holds_mode in *. rewrite existsb_exists in *.
      destruct H as [x [Hx1 Hx2]]. exists x. split; [assumption|].
      apply andb_true_iff in Hx2. destruct Hx2 as [E _]. rewrite E. reflexivity.
  - (* Immutable: a write entry is not allowed *)
    rewrite Hkw in Okw. discriminate.
Qed.

(* ------------------------------------------------------------------ main theorem *)

Theorem discipline_sound gm S tr :
  discipline_ok gm S = true -> wf tr -> follows S tr ->
  forall i j, i < j -> conflict tr i j -> hb tr i j.
Proof.
  intros Hd Hwf Hfol i j Hij (t1 & t2 & f & k1 & k2 & Hi & Hj & Hne & Hw).
  destruct (Hfol _ _ _ _ Hi) as (e1 & He1 & Hf1 & Hk1 & Hh1).
  destruct (Hfol _ _ _ _ Hj) as (e2 & He2 & Hf2 & Hk2 & Hh2).
  assert (Hjl : j <= length tr) by (apply Nat.lt_le_incl; eapply nth_error_lt; eassumption).
  (* real holdings of a common lock, one of them exclusive *)
  assert (Hcommon : exists l a1 a2, In (t1, l, a1) (state_at tr i) /\ In (t2, l, a2) (state_at tr j) /\
                                    (a1 = Ex \/ a2 = Ex)).
  { destruct Hw as [->| ->].
    - destruct (common_lock gm S e1 e2 Hd He1 He2 Hk1 ltac:(congruence)) as (l & H1 & H2 & _).
      destruct (entry_holding _ _ _ _ _ Hh1 H1) as (a1 & Ha1 & Hx1).
      destruct (entry_holding _ _ _ _ _ Hh2 H2) as (a2 & Ha2 & _).
      exists l, a1, a2. repeat split; [assumption|assumption|left; auto].
    - destruct (common_lock gm S e2 e1 Hd He2 He1 Hk2 ltac:(congruence)) as (l & H2 & H1 & _).
      destruct (entry_holding _ _ _ _ _ Hh2 H2) as (a2 & Ha2 & Hx2).
      destruct (entry_holding _ _ _ _ _ Hh1 H1) as (a1 & Ha1 & _).
      exists l, a1, a2. repeat split; [assumption|assumption|right; auto]. }
  destruct Hcommon as (l & a1 & a2 & H1 & H2 & Hex).
  destruct (lock_orders tr i j t1 t2 l a1 a2 Hwf ltac:(lia) Hjl Hne Hex H1 H2)
    as (r & a & Hr1 & Hr2 & Ha & Hrel & Hacq).
  (* i -po-> r -sw-> a -po-> j *)
  assert (Hir : i < r).
  { destruct (Nat.eq_dec i r) as [E|E]; [|lia]. subst r. rewrite Hi in Hrel. discriminate. }
  eapply hb_trans; [eapply hb_po; [exact Hir|exact Hi|exact Hrel]|].
  eapply hb_trans; [eapply hb_sw; [exact Hr2|exact Hrel|exact Hacq|exact Hex]|].
  eapply hb_po; [exact Ha|exact Hacq|exact Hj].
Qed.

(* ------------------------------------------------------------------ examples *)

Definition ex_gm : guard_map_t := assoc_guard [("x", Guarded ["mu"]); ("c", Immutable)].

Definition ex_table : list entry := [
  mkEntry "writer" "x" Wr [("mu", Ex)];
  mkEntry "reader" "x" Rd [("mu", Sh)];
  mkEntry "reader" "c" Rd []
].

(* thread 1 writes x under Lock, thread 2 then reads x under RLock and c without any lock *)
Definition ex_trace : trace := [
  (1, Acq "mu" Ex); (1, Acc "x" Wr); (1, Rel "mu" Ex);
  (2, Acc "c" Rd); (2, Acq "mu" Sh); (2, Acc "x" Rd); (2, Rel "mu" Sh)
].

Ltac by_index k n H :=
  lazymatch k with
  | O => try (cbn in H; destruct n; discriminate H)
  | S ?k' => let m := fresh "n" in
             destruct n as [|m]; [cbn in H; inversion H; subst; clear H | by_index k' m H]
  end.

Lemma ex_trace_wf : wf ex_trace.
Proof.
  intros n te H. by_index 7 n H; cbn; auto.
Qed.

Lemma ex_trace_follows : follows ex_table ex_trace.
Proof.
  intros n t f k H. by_index 7 n H; cbn.
  - exists (mkEntry "writer" "x" Wr [("mu", Ex)]). cbn. repeat split; auto.
    intros l m [E|[]]. inversion E; subst. left. now left.
  - exists (mkEntry "reader" "c" Rd []). cbn. repeat split; auto. intros l m [].
  - exists (mkEntry "reader" "x" Rd [("mu", Sh)]). cbn. repeat split; auto.
    intros l m [E|[]]. inversion E; subst. right. split; [reflexivity|now left].
Qed.

(* non-vacuity: the hypotheses of discipline_sound are satisfiable by a trace that really contains a
   conflicting pair (which the theorem then orders) *)
Example discipline_nonvacuous :
  discipline_ok ex_gm ex_table = true /\ wf ex_trace /\ follows ex_table ex_trace /\
  conflict ex_trace 1 5 /\ hb ex_trace 1 5.
Proof.
  assert (Hc : conflict ex_trace 1 5).
  { exists 1, 2, "x", Wr, Rd. cbn. repeat split; auto. }
  repeat split; [apply ex_trace_wf|apply ex_trace_follows|exact Hc|].
  apply (discipline_sound ex_gm ex_table ex_trace eq_refl ex_trace_wf ex_trace_follows 1 5); [lia|exact Hc].
Qed.

(* refutation: a write under a *shared* lock is rejected by discipline_ok, and rightly so: it admits
   a well-formed trace following the table with two conflicting writes unordered by happens-before *)
Definition bad_table : list entry := [ mkEntry "throttle" "x" Wr [("mu", Sh)] ].

Definition bad_trace : trace := [
  (1, Acq "mu" Sh); (2, Acq "mu" Sh); (1, Acc "x" Wr); (2, Acc "x" Wr); (1, Rel "mu" Sh); (2, Rel "mu" Sh)
].

Lemma bad_trace_wf : wf bad_trace.
Proof.
  intros n te H. by_index 6 n H; cbn; auto.
  intros t' [E|[]]. discriminate.
Qed.

Lemma bad_trace_follows : follows bad_table bad_trace.
Proof.
  intros n t f k H. by_index 6 n H; cbn.
  - exists (mkEntry "throttle" "x" Wr [("mu", Sh)]). cbn. repeat split; auto.
    intros l m [E|[]]. inversion E; subst. right. split; [reflexivity|]. right. now left.
  - exists (mkEntry "throttle" "x" Wr [("mu", Sh)]). cbn. repeat split; auto.
    intros l m [E|[]]. inversion E; subst. right. split; [reflexivity|]. now left.
Qed.

Definition thread_of (tr : trace) (n : nat) : option tid := option_map fst (nth_error tr n).

Lemma bad_trace_hb_same_thread i j : hb bad_trace i j -> thread_of bad_trace i = thread_of bad_trace j.
Proof.
  induction 1 as [i j t e1 e2 _ Hi Hj | i j t1 t2 l m1 m2 Hij Hi Hj _ | i j k _ IH1 _ IH2].
  - unfold thread_of. now rewrite Hi, Hj.
  - (* no release is followed by an acquire in bad_trace *)
    exfalso.
    assert (Hi4 : 4 <= i).
    { do 4 (destruct i as [|i]; [cbn in Hi; discriminate|]). lia. }
    assert (Hj2 : j < 2).
    { destruct j as [|[|j]]; [lia|lia|]. exfalso.
      do 4 (destruct j as [|j]; [cbn in Hj; discriminate|]). destruct j; discriminate. }
    lia.
  - congruence.
Qed.

Example write_under_shared_lock_races :
  discipline_ok ex_gm bad_table = false /\
  wf bad_trace /\ follows bad_table bad_trace /\ conflict bad_trace 2 3 /\ ~ hb bad_trace 2 3.
Proof.
  repeat split; [apply bad_trace_wf|apply bad_trace_follows| |].
  - exists 1, 2, "x", Wr, Wr. cbn. repeat split; auto.
  - intros H. apply bad_trace_hb_same_thread in H. cbn in H. discriminate.
Qed.
