//go:build verif

package raftstore

// C20 race-detector stress harness for LevelDBStore (run with `go test -race`).
// Injected into internal/raftstore by `go test -overlay`; never part of /repo.
//
// Two stores, used the way the running system uses them concurrently:
//   log store  (raft's LogStore+StableStore): StoreLogs/StoreLog, GetLog, FirstIndex, LastIndex,
//              DeleteRange (log compaction after a snapshot), Set/Get/SetUint64/GetUint64 — raft's
//              main, replication and snapshot goroutines call these concurrently;
//   irc store  (FSM.ircstore): StoreLogProto (Apply), DeleteRange (Snapshot) and WriteBatch (Restore)
//              from the FSM goroutine; GetLog, FirstIndex, LastIndex, GetBulkIterator from status
//              pages and robustSnapshot.Persist.
// Close is not called concurrently with anything: the running system never does (documented
// contract of Close).

import (
	"encoding/binary"
	"fmt"
	"math/rand"
	"os"
	"sort"
	"strconv"
	"sync"
	"sync/atomic"
	"testing"
	"time"

	"github.com/hashicorp/raft"
	pb "github.com/robustirc/robustirc/internal/proto"
	"github.com/syndtr/goleveldb/leveldb"
)

func verifRaceEnvInt(name string, def int64) int64 {
	if v, err := strconv.ParseInt(os.Getenv(name), 10, 64); err == nil {
		return v
	}
	return def
}

func TestVerifRaceStore(t *testing.T) {
	ms := verifRaceEnvInt("VERIF_RACE_MS", 3000)
	seed := verifRaceEnvInt("VERIF_SEED", 1)
	dir := t.TempDir()
	logStore, err := NewLevelDBStore(dir+"/raftlog", true, true)
	if err != nil {
		t.Fatal(err)
	}
	ircStore, err := NewLevelDBStore(dir+"/irclog", true, true)
	if err != nil {
		t.Fatal(err)
	}

	counts := map[string]*int64{}
	var cmu sync.Mutex
	inc := func(n string) {
		cmu.Lock()
		p, ok := counts[n]
		if !ok {
			p = new(int64)
			counts[n] = p
		}
		cmu.Unlock()
		atomic.AddInt64(p, 1)
	}
	var stop int32
	var wg sync.WaitGroup
	var logHead, ircHead uint64
	run := func(f func(rng *rand.Rand), k int64) {
		wg.Add(1)
		go func() {
			defer wg.Done()
			rng := rand.New(rand.NewSource(seed + k))
			for atomic.LoadInt32(&stop) == 0 {
				f(rng)
			}
		}()
	}

	// ---- log store
	run(func(rng *rand.Rand) { // leader loop / follower appendEntries
		idx := atomic.LoadUint64(&logHead)
		n := 1 + rng.Intn(3)
		logs := make([]*raft.Log, n)
		for k := range logs {
			idx++
			logs[k] = &raft.Log{Index: idx, Term: 1, Type: raft.LogCommand, Data: []byte(fmt.Sprintf("p-entry-%d", idx)), AppendedAt: time.Now()}
		}
		var err error
		if n == 1 {
			err = logStore.StoreLog(logs[0])
		} else {
			err = logStore.StoreLogs(logs)
		}
		if err != nil {
			t.Errorf("StoreLogs: %v", err)
		}
		atomic.StoreUint64(&logHead, idx)
		inc("logstore:StoreLogs")
	}, 1)
	run(func(rng *rand.Rand) { // replication / FSM reading entries
		h := atomic.LoadUint64(&logHead)
		if h == 0 {
			return
		}
		var l raft.Log
		logStore.GetLog(1+uint64(rng.Int63n(int64(h))), &l)
		inc("logstore:GetLog")
		logStore.FirstIndex()
		inc("logstore:FirstIndex")
		logStore.LastIndex()
		inc("logstore:LastIndex")
	}, 2)
	var logDeleted uint64
	run(func(rng *rand.Rand) { // compactLogs after a snapshot
		h := atomic.LoadUint64(&logHead)
		if h > logDeleted+300 {
			logStore.DeleteRange(logDeleted+1, h-200)
			logDeleted = h - 200
			inc("logstore:DeleteRange")
		}
		time.Sleep(time.Millisecond)
	}, 3)
	run(func(rng *rand.Rand) { // raft main goroutine: current term / vote
		logStore.SetUint64([]byte("CurrentTerm"), uint64(rng.Intn(100)))
		inc("stable:SetUint64")
		logStore.GetUint64([]byte("CurrentTerm"))
		inc("stable:GetUint64")
		logStore.Set([]byte("LastVoteCand"), []byte("node0"))
		inc("stable:Set")
		logStore.Get([]byte("LastVoteCand"))
		inc("stable:Get")
		time.Sleep(200 * time.Microsecond)
	}, 4)
	run(func(rng *rand.Rand) { // a second reader of the stable store (raft.Stats / election)
		logStore.GetUint64([]byte("CurrentTerm"))
		inc("stable:GetUint64")
		logStore.Get([]byte("LastVoteCand"))
		inc("stable:Get")
		time.Sleep(100 * time.Microsecond)
	}, 5)

	// ---- irc store
	var ircDeleted uint64
	run(func(rng *rand.Rand) { // FSM goroutine: Apply, Snapshot compaction, Restore batches
		idx := atomic.LoadUint64(&ircHead) + 1
		switch {
		case idx%50 == 0:
			var batch leveldb.Batch
			key := make([]byte, 8)
			binary.BigEndian.PutUint64(key, idx)
			batch.Put(key, []byte("p"))
			ircStore.WriteBatch(&batch)
			inc("ircstore:WriteBatch")
		default:
			if err := ircStore.StoreLogProto(&pb.RaftLog{Index: idx, Term: 1, Type: pb.RaftLog_LogType(raft.LogCommand), Data: []byte("p")}); err != nil {
				t.Errorf("StoreLogProto: %v", err)
			}
			inc("ircstore:StoreLogProto")
		}
		atomic.StoreUint64(&ircHead, idx)
		if idx > ircDeleted+300 && idx%64 == 0 {
			for ; ircDeleted < idx-200; ircDeleted++ {
				ircStore.DeleteRange(ircDeleted+1, ircDeleted+1)
				inc("ircstore:DeleteRange")
			}
		}
	}, 6)
	for r := int64(0); r < 2; r++ {
		run(func(rng *rand.Rand) { // status pages, robustSnapshot.Persist
			first, _ := ircStore.FirstIndex()
			inc("ircstore:FirstIndex")
			last, _ := ircStore.LastIndex()
			inc("ircstore:LastIndex")
			if last > 0 {
				var l raft.Log
				ircStore.GetLog(first+uint64(rng.Int63n(int64(last-first+1))), &l)
				inc("ircstore:GetLog")
			}
			it := ircStore.GetBulkIterator(first, last+1)
			n := 0
			for it.Next() && n < 50 {
				_ = it.Value()
				n++
			}
			it.Release()
			inc("ircstore:GetBulkIterator")
		}, 7+r)
	}

	time.Sleep(time.Duration(ms) * time.Millisecond)
	atomic.StoreInt32(&stop, 1)
	wg.Wait()
	logStore.Close()
	ircStore.Close()

	if path := os.Getenv("VERIF_OUT"); path != "" {
		f, err := os.OpenFile(path, os.O_TRUNC|os.O_CREATE|os.O_WRONLY, 0644)
		if err == nil {
			var names []string
			for n := range counts {
				names = append(names, n)
			}
			sort.Strings(names)
			for _, n := range names {
				fmt.Fprintf(f, "op raftstore/%s %d\n", n, atomic.LoadInt64(counts[n]))
			}
			f.Close()
		}
	}
}
