//go:build verif

package main

// C20 race-detector stress, scenario "two configured IRCServer instances alive at once" (run with
// `go test -race`).  Injected into package main by `go test -overlay`; never part of /repo.
//
// One goroutine plays raft's FSM goroutine and calls the real FSM.Apply / FSM.Snapshot /
// robustSnapshot.Persist / FSM.Restore serially (raft's contract):
//   - Config entries (an IRC operator; with an empty and with a non-empty [Banned] table),
//   - an OPERed session GLINEing users whose remote address is known (cmdGline writes Config.Banned
//     in place),
//   - FSM.Snapshot with a compaction horizon in the future, so that its temporary IRCServer replays
//     the Config entry and the GLINEs of the compacted range,
//   - FSM.Restore from a snapshot that still carries the entries, so that the fresh IRCServer replays
//     them while handlers still hold the previous instance.
// The other goroutines play HTTP handlers and the metrics/expiry callers on whatever instance they
// got hold of (the previous and the current one): GET /config and /status/state through
// DispatchPrivateWithoutAuth, the HTML status page GET /status (which locks ConfigMu of the instance
// whose Config it renders), Banned, OriginWhitelisted, TrustedBridge, SessionLimit, ChannelLimit,
// Marshal, ExpireSessions.  Instances must not share mutable state: every one has its own ConfigMu.

import (
	"bytes"
	"flag"
	"fmt"
	"io"
	"log"
	"math/rand"
	"net/http/httptest"
	"os"
	"path/filepath"
	"sync"
	"sync/atomic"
	"testing"
	"time"

	"github.com/golang/protobuf/proto"
	hclog "github.com/hashicorp/go-hclog"
	"github.com/hashicorp/raft"
	"github.com/robustirc/robustirc/internal/api"
	"github.com/robustirc/robustirc/internal/ircserver"
	"github.com/robustirc/robustirc/internal/outputstream"
	"github.com/robustirc/robustirc/internal/raftstore"
	"github.com/robustirc/robustirc/internal/robust"
)

// verifRace2NopFSM: the raft node of this scenario only serves the raft calls of the status page
// (GetConfiguration, State, Leader, Stats); the real FSM is driven by the scenario's own FSM goroutine
type verifRace2NopFSM struct{}

func (verifRace2NopFSM) Apply(*raft.Log) interface{}         { return nil }
func (verifRace2NopFSM) Snapshot() (raft.FSMSnapshot, error) { return nil, fmt.Errorf("not used") }
func (verifRace2NopFSM) Restore(rc io.ReadCloser) error      { return rc.Close() }

type verifRace2Sink struct{ bytes.Buffer }

func (s *verifRace2Sink) ID() string    { return "verif" }
func (s *verifRace2Sink) Cancel() error { return nil }
func (s *verifRace2Sink) Close() error  { return nil }

func TestVerifRaceTwoInstances(t *testing.T) {
	ms := verifRaceEnvInt("VERIF_RACE_MS", 4000)
	seed := verifRaceEnvInt("VERIF_SEED", 1)
	cnt := &verifRaceCounts{m: map[string]*int64{}}

	// ---- what main() does before it starts serving (single-threaded)
	dir := t.TempDir()
	log.SetOutput(io.Discard)
	flag.Set("log_dir", dir)
	flag.Set("stderrthreshold", "FATAL")
	*raftDir = dir
	*network = "verif.net"
	*useProtobuf = true
	robust.MessageOffset = 0
	logStore, err := raftstore.NewLevelDBStore(filepath.Join(dir, "raftlog"), true, true)
	if err != nil {
		t.Fatal(err)
	}
	ircStore, err = raftstore.NewLevelDBStore(filepath.Join(dir, "irclog"), true, true)
	if err != nil {
		t.Fatal(err)
	}
	ircServer = ircserver.NewIRCServer(*network, time.Now())
	outputStream, err = outputstream.NewOutputStream(dir)
	if err != nil {
		t.Fatal(err)
	}
	fsm := &FSM{
		store:             logStore,
		ircstore:          ircStore,
		lastSnapshotState: make(map[uint64][]byte),
		ReplaceState:      func(*ircserver.IRCServer, *raftstore.LevelDBStore, *outputstream.OutputStream) {},
	}
	rcfg := raft.DefaultConfig()
	rcfg.LocalID = "node0"
	rcfg.HeartbeatTimeout = 50 * time.Millisecond
	rcfg.ElectionTimeout = 50 * time.Millisecond
	rcfg.LeaderLeaseTimeout = 50 * time.Millisecond
	rcfg.CommitTimeout = 5 * time.Millisecond
	rcfg.Logger = hclog.NewNullLogger()
	rstore := raft.NewInmemStore()
	_, rtrans := raft.NewInmemTransport("node0")
	rsnaps := raft.NewInmemSnapshotStore()
	if err := raft.BootstrapCluster(rcfg, rstore, rstore, rsnaps, rtrans, raft.Configuration{
		Servers: []raft.Server{{ID: rcfg.LocalID, Address: "node0"}}}); err != nil {
		t.Fatal(err)
	}
	statusNode, err := raft.NewRaft(rcfg, verifRace2NopFSM{}, rstore, rstore, rsnaps, rtrans)
	if err != nil {
		t.Fatal(err)
	}
	defer statusNode.Shutdown()
	h := api.NewHTTP(ircServer, statusNode, ircStore, outputStream, nil, *network, "pw", dir, "node0", true, 3)
	fsm.ReplaceState = h.ReplaceState
	// the instances handlers may still hold: [0] the previous one, [1] the current one
	var held [2]atomic.Value
	held[0].Store(ircServer)
	held[1].Store(ircServer)
	// ---- from here on other goroutines exist; the harness no longer touches the package-level state

	var stop int32
	var wg sync.WaitGroup

	// ---- raft's FSM goroutine
	wg.Add(1)
	go func() {
		defer wg.Done()
		rng := rand.New(rand.NewSource(seed))
		index := uint64(0)
		revision := uint64(0)
		apply := func(m *robust.Message) uint64 {
			index++
			m.UnixNano = time.Now().UnixNano()
			b, err := proto.Marshal(m.ProtoMessage())
			if err != nil {
				t.Errorf("marshal: %v", err)
			}
			fsm.Apply(&raft.Log{Type: raft.LogCommand, Index: index, Term: 1, Data: append([]byte{'p'}, b...), AppendedAt: time.Now()})
			return index
		}
		line := func(session uint64, addr, l string) {
			apply(&robust.Message{Type: robust.IRCFromClient, Session: robust.Id{Id: session}, Data: l, RemoteAddr: addr, ClientMessageId: uint64(rng.Int63())})
			cnt.inc("fsm: Apply(IRCFromClient)")
		}
		victim := uint64(0)
		for round := 0; atomic.LoadInt32(&stop) == 0; round++ {
			// a configuration update: operator, trusted bridge; [Banned] empty or not
			revision++
			toml := "SessionExpiration = \"30m\"\nPostMessageCooloff = \"0s\"\nMaxSessions = 1000\n[TrustedBridges]\n\"secret\" = \"bridge\"\n[WhitelistedOrigins]\n\"https://x\" = true\n"
			if round%2 == 1 {
				toml += fmt.Sprintf("[Banned]\n\"192.0.2.%d\" = \"configured ban\"\n", round%250)
			}
			toml += "[[IRC.Operators]]\nName = \"verifop\"\nPassword = \"verifpw\"\n"
			apply(&robust.Message{Type: robust.Config, Data: toml, Revision: revision})
			cnt.inc("fsm: Apply(Config)")
			// an operator and a handful of GLINEs
			op := apply(&robust.Message{Type: robust.CreateSession, Data: "0123456789abcdef0123456789abcdef"})
			line(op, "10.9.9.9", fmt.Sprintf("NICK verifoper%d", round))
			line(op, "10.9.9.9", "USER o 0 * :operator")
			line(op, "10.9.9.9", "OPER verifop verifpw")
			gline := func(n int) {
				for k := 0; k < n; k++ {
					victim++
					addr := fmt.Sprintf("10.%d.%d.%d", victim>>16&255, victim>>8&255, victim&255)
					nick := fmt.Sprintf("victim%d", victim)
					v := apply(&robust.Message{Type: robust.CreateSession, Data: "0123456789abcdef0123456789abcdef"})
					line(v, addr, "NICK "+nick)
					line(v, addr, "USER v 0 * :victim")
					line(op, "10.9.9.9", "GLINE "+nick+" :verif gline")
					cnt.inc("fsm: GLINE applied")
				}
			}
			if round%3 == 2 {
				gline(3) // a short log: the restores below replay it every time
			} else {
				gline(10)
			}
			if round%3 == 2 {
				// nothing is old enough to be compacted: the snapshot carries every entry, and Restore
				// replays Config + GLINEs into a fresh instance while handlers still use the previous one
				*canaryCompactionStart = 1
				snap, err := fsm.Snapshot()
				if err != nil {
					t.Errorf("Snapshot: %v", err)
					return
				}
				var sink verifRace2Sink
				if err := snap.Persist(&sink); err != nil {
					t.Errorf("Persist: %v", err)
					return
				}
				snap.Release()
				cnt.inc("fsm: Snapshot+Persist (nothing compacted)")
				// several restores in a row (raft may install snapshot after snapshot on a lagging follower):
				// every one swaps the instance under the handlers' feet, then a Config entry is applied to it
				for k := 0; k < 12 && atomic.LoadInt32(&stop) == 0; k++ {
					if err := fsm.Restore(io.NopCloser(bytes.NewReader(sink.Bytes()))); err != nil {
						t.Errorf("Restore: %v", err)
						return
					}
					cnt.inc("fsm: Restore (fresh instance replays Config + GLINE)")
					held[0].Store(held[1].Load())
					held[1].Store(currentIRCServer())
				}
				gline(5) // and GLINEs on the new instance while the previous one is still being read
			} else {
				// everything is old: Snapshot's temporary server replays Config + GLINEs of the range
				*canaryCompactionStart = time.Now().Add(24 * time.Hour).UnixNano()
				snap, err := fsm.Snapshot()
				if err != nil {
					t.Errorf("Snapshot: %v", err)
					return
				}
				snap.Release()
				cnt.inc("fsm: Snapshot (temporary server replays Config + GLINE)")
			}
		}
	}()

	// ---- handlers, metrics, expiry on the instances they hold
	for r := 0; r < 4; r++ {
		wg.Add(1)
		go func(r int) {
			defer wg.Done()
			rng := rand.New(rand.NewSource(seed + int64(r) + 1))
			for atomic.LoadInt32(&stop) == 0 {
				i := held[rng.Intn(2)].Load().(*ircserver.IRCServer)
				switch rng.Intn(13) {
				case 10, 11, 12:
					// the HTML status page: ConfigMu of the instance + its Config + GetSessions + raft calls
					rec := httptest.NewRecorder()
					h.DispatchPrivateWithoutAuth(rec, httptest.NewRequest("GET", "/status", nil))
					cnt.inc("handler: GET /status")
				case 0, 1, 2:
					rec := httptest.NewRecorder()
					h.DispatchPrivateWithoutAuth(rec, httptest.NewRequest("GET", "/config", nil))
					cnt.inc("handler: GET /config")
				case 3:
					rec := httptest.NewRecorder()
					h.DispatchPrivateWithoutAuth(rec, httptest.NewRequest("GET", "/status/state", nil))
					cnt.inc("handler: GET /status/state")
				case 4:
					i.Marshal(0)
					cnt.inc("held instance: Marshal")
				case 5:
					i.Banned(fmt.Sprintf("10.0.0.%d", rng.Intn(250)))
					cnt.inc("held instance: Banned")
				case 6:
					i.OriginWhitelisted("https://x")
					cnt.inc("held instance: OriginWhitelisted")
				case 7:
					i.TrustedBridge("secret")
					cnt.inc("held instance: TrustedBridge")
				case 8:
					i.SessionLimit()
					i.ChannelLimit()
					cnt.inc("held instance: SessionLimit/ChannelLimit")
				case 9:
					i.ExpireSessions()
					cnt.inc("held instance: ExpireSessions")
				}
			}
		}(r)
	}

	// the status page, hammered: it locks ConfigMu of the instance whose Config it renders.  Many
	// requests in flight: most of their time is spent parked in raft calls between taking the lock and
	// reading the configuration, which is where a swap of the instance hurts
	for r := 0; r < 6; r++ {
		wg.Add(1)
		go func() {
			defer wg.Done()
			for atomic.LoadInt32(&stop) == 0 {
				rec := httptest.NewRecorder()
				h.DispatchPrivateWithoutAuth(rec, httptest.NewRequest("GET", "/status", nil))
				cnt.inc("handler: GET /status")
			}
		}()
	}

	time.Sleep(time.Duration(ms) * time.Millisecond)
	atomic.StoreInt32(&stop, 1)
	wg.Wait()
	// same counter format as the system scenario, other prefix
	if path := os.Getenv("VERIF_OUT"); path != "" {
		cnt.dump(path)
		if b, err := os.ReadFile(path); err == nil {
			os.WriteFile(path, bytes.ReplaceAll(b, []byte("op system/"), []byte("op two-instances/")), 0644)
		}
	}
}
