#!/bin/sh
# usage: runseeds.sh <name>  -> one line summary in /tmp/seedrun/<name>.txt
cd /verif
export GOFLAGS=-mod=mod GOPROXY=off GOSUMDB=off GOTOOLCHAIN=local
mkdir -p /tmp/seedrun
python3 harness/py/seedtest.py run $1 > /tmp/seedrun/$1.txt 2>&1
