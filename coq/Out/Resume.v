(* Out/Resume.v — M-RESUME: api.getMessages (REPAIRED, fixes/getmessages-resume-via-getnext.diff)
   as a small-step machine against the M-OUT interface, together with
     - any number of nodes, each applying the batches of ONE common output stream at arbitrary
       moments (node lag) and compacting below the client's resume point,
     - the per-session filter of handleGetMessages,
     - a client that disconnects at any moment (between and inside batches) and reconnects, to
       any node, with the id of the last message it received.

   getMessages(ctx, lastSeen):                                  handler state
     resume := lastSeen; if lastSeen.Id > 0 { lastSeen.Id-- }   HInit ls   -> HCall pos resume
     for { msgs = GetNext(ctx, lastSeen)                        HCall: blocked while no successor
           if msgs[0].Id.Id <= lastSeen.Id { sleep; continue }  HBackoff (only reachable when GetNext
                                                                 returns a stale batch: step RS_stale)
           lastSeen = msgs[0].Id
           if lastSeen.Id == resume.Id { if resume.Reply >= len(msgs) { continue }
                                         msgs = msgs[resume.Reply:] }
           msgschan <- msgs }                                   HSend: blocked until the HTTP handler
                                                                 has written out the previous batch
   GetNext is modelled by its linearisation point: one [next_unlocked] on the node's stream
   (justified by OutProofs.getnext_safe: the result of a GetNext call is the successor at some
   instant during the call; steps of the environment may be interleaved anywhere).
   Executable definitions + the step relation; proofs are in ResumeProofs.v. *)
From Coq Require Import NArith List String.
From stdpp Require Import gmap.
From RV Require Import Out.OutSeq.
Import ListNotations.
Local Open Scope N_scope.

(* a message as it travels to the client *)
Record omsg := OMsg { o_id : N; o_reply : N; o_text : string; o_rcpt : list N }.
Definition tag (id : N) (b : batch) : list omsg :=
  map (fun m => OMsg id (m_reply m) (m_text m) (m_rcpt m)) b.
Definition mid (m : omsg) : N * N := (o_id m, o_reply m).

Definition memN (x : N) (l : list N) : bool := existsb (N.eqb x) l.
(* msg.InterestingFor[session.Id] *)
Definition interesting (sess : N) (m : omsg) : bool := memN sess (o_rcpt m).

(* msgs[resume.Reply:], guarded by  resume.Reply >= uint64(len(msgs))  (then nothing is left) *)
Definition skipN (r : N) (l : list omsg) : list omsg :=
  if N.of_nat (length l) <=? r then [] else skipn (N.to_nat r) l.

Inductive hstate :=
| HInit (ls : N * N)
| HCall (pos : N) (resume : N * N)
| HBackoff (pos : N) (resume : N * N)
| HSend (pos : N) (resume : N * N) (out : list omsg).

Record node := Node { n_out : state; n_applied : nat }.

Record rstate := RState {
  r_nodes : gmap nat node;
  r_conn : option (nat * hstate);     (* node connected to, handler state *)
  r_inflight : list omsg;             (* batch taken from msgschan, being filtered and written *)
  r_last : N * N;                     (* id of the last message the client received *)
  r_recv : list omsg }.               (* everything the client received, all connections *)

(* one step of the handler goroutine; None = blocked (in GetNext or in the channel send) *)
Definition hstep (o : state) (h : hstate) (inflight : list omsg)
  : option (state * hstate * list omsg) :=
  match h with
  | HInit (i, r) => Some (o, HCall (if i =? 0 then 0 else i - 1) (i, r), inflight)
  | HCall pos res =>
      match next_unlocked o pos with
      | (Some (id, b), o') =>
          if id <=? pos then Some (o', HBackoff pos res, inflight)
          else
            let out := if id =? fst res then skipN (snd res) (tag id b) else tag id b in
            match out with
            | [] => Some (o', HCall id res, inflight)
            | _ :: _ => Some (o', HSend id res out, inflight)
            end
      | (None, _) => None
      end
  | HBackoff pos res => Some (o, HCall pos res, inflight)
  | HSend pos res out =>
      match inflight with
      | [] => Some (o, HCall pos res, out)
      | _ :: _ => None
      end
  end.

(* the HTTP handler writes the next message of the batch in flight to the client *)
Definition client_recv (sess : N) (st : rstate) : option rstate :=
  match r_inflight st with
  | [] => None
  | m :: rest =>
      if interesting sess m
      then Some (RState (r_nodes st) (r_conn st) rest (mid m) (r_recv st ++ [m]))
      else Some (RState (r_nodes st) (r_conn st) rest (r_last st) (r_recv st))
  end.

Definition set_node (st : rstate) (k : nat) (nd : node) : rstate :=
  RState (<[k := nd]> (r_nodes st)) (r_conn st) (r_inflight st) (r_last st) (r_recv st).

Definition handler_step (st : rstate) : option rstate :=
  match r_conn st with
  | Some (k, h) =>
      match r_nodes st !! k with
      | Some nd =>
          match hstep (n_out nd) h (r_inflight st) with
          | Some (o', h', infl') =>
              Some (RState (<[k := Node o' (n_applied nd)]> (r_nodes st)) (Some (k, h')) infl'
                           (r_last st) (r_recv st))
          | None => None
          end
      | None => None
      end
  | None => None
  end.

Definition connect (st : rstate) (k : nat) : rstate :=
  RState (r_nodes st) (Some (k, HInit (r_last st))) [] (r_last st) (r_recv st).
Definition disconnect (st : rstate) : rstate :=
  RState (r_nodes st) None [] (r_last st) (r_recv st).

Definition fresh_node : node := Node init 0.
Definition rinit (nodes : gmap nat node) (ls0 : N * N) : rstate := RState nodes None [] ls0 [].

Section Steps.
(* the common output stream (what every node produces from the same raft log) and the
   session the client is reading for *)
Variable STR : list (N * batch).
Variable sess : N.

Inductive rstep : rstate -> rstate -> Prop :=
| RS_apply st k nd id b o' :
    r_nodes st !! k = Some nd ->
    nth_error STR (n_applied nd) = Some (id, b) ->
    add (n_out nd) id b = Ok o' ->
    rstep st (set_node st k (Node o' (S (n_applied nd))))
| RS_compact st k nd x o' :
    r_nodes st !! k = Some nd ->
    x < fst (r_last st) ->                       (* compaction horizon <= resume point *)
    delete_op (n_out nd) x = Ok o' ->
    rstep st (set_node st k (Node o' (n_applied nd)))
| RS_evict st k nd key :
    r_nodes st !! k = Some nd ->
    rstep st (set_node st k (Node (evict (n_out nd) key) (n_applied nd)))
| RS_newnode st k :
    r_nodes st !! k = None ->
    rstep st (set_node st k fresh_node)
| RS_connect st k nd :
    r_conn st = None ->
    r_nodes st !! k = Some nd ->
    rstep st (connect st k)
| RS_disconnect st :
    rstep st (disconnect st)
| RS_handler st st' :
    handler_step st = Some st' ->
    rstep st st'
| RS_stale st k nd pos res id e :
    (* weak GetNext contract (the unrepaired outputstream): a batch that is not newer than the
       position asked for may be returned; the handler's <= test sends it to the back-off *)
    r_conn st = Some (k, HCall pos res) ->
    r_nodes st !! k = Some nd ->
    db (n_out nd) !! id = Some e -> id <= pos ->
    rstep st (RState (r_nodes st) (Some (k, HBackoff pos res)) (r_inflight st) (r_last st) (r_recv st))
| RS_client st st' :
    client_recv sess st = Some st' ->
    rstep st st'.
End Steps.

(* ---- deterministic executor for scripted scenarios (driver) --------------------------- *)
(* the handler runs only while the client asks for messages; by C04 the result does not
   depend on when it runs *)
Fixpoint recv_loop (fuel : nat) (sess : N) (k : nat) (got : list omsg) (st : rstate)
  : list omsg * rstate :=
  match fuel with
  | O => (got, st)
  | S f =>
      let enough := match k with O => false | _ => Nat.leb k (length got) end in
      if enough then (got, st)
      else
        match r_inflight st with
        | m :: _ =>
            match client_recv sess st with
            | Some st' =>
                recv_loop f sess k (if interesting sess m then got ++ [m] else got) st'
            | None => (got, st)
            end
        | [] =>
            match handler_step st with
            | Some st' => recv_loop f sess k got st'
            | None => (got, st)
            end
        end
  end.
