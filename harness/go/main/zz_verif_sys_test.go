//go:build verif

package main

// `sysdrv` — property C05 (acknowledged messages survive crashes, exactly once, same stream).
// Injected into package main by `go test -overlay` together with zz_verif_api_node_test.go
// (shared constant verifApiPassword); never part of /repo.
//
// CHILD (re-exec of this test binary with $VERIF_SYS_CHILD=<raftdir>): one RobustIRC node wired
// the way main() wires it, in main()'s order: DeleteOldDatabases, fresh IRCServer + output
// stream, raft config, file snapshot store (5 retained), raft log store in <dir>/raftlog (real
// raftstore.LevelDBStore, ErrorIfExist only when bootstrapping), irclog removed and re-created when
// NOT bootstrapping, the real FSM, LogCache, raft.GetConfiguration on a copy of the config when
// not bootstrapping (this restores the newest snapshot a first time, as in main()), raft.NewRaft,
// BootstrapCluster on the very first start only, api.NewHTTP, an own ServeMux with
// DispatchPublic/DispatchPrivate, fsm.ReplaceState = api.ReplaceState, then the listener.
// Deviations from main(), all stated in the evidence: in-memory raft transport and plain HTTP on a
// loopback port instead of rafthttp/TLS; raft timeouts 50 ms instead of timesafeguard's; the
// "only known peer is myself" exit and the time safeguard are skipped (a single node could never
// restart otherwise); no session-expiry loop; the log store handed to raft can be slowed down
// ($VERIF_SYS_DELAY_US per StoreLogs call: a slow disk, which widens the window between proposal
// and commit); the child announces itself (file ready-<run> holding the port) only after it is
// leader and a raft Barrier has passed, i.e. after it has applied everything in its log — this
// ENFORCES the hypothesis handler_caught_up of the Coq composition.
//
// PARENT (TestVerifSys): one scenario per line of $VERIF_IN:
//   sys <id> <step>*
//   N:<delay>            start the node (first start bootstraps)            F  post the network config
//   C:<k>[:<scheme>]     client k: create session, NICK, USER, JOIN #verif.  scheme = where its client message ids live (consecutive
//                        posts differ by 1): 0 small numbers (steps 1+k), 1 from 2^63+2^62+k*2^40 (top bit set), 2 from 2^53-5 (across
//                        the float64 integer limit), 3 from 2^64-1-200000 (towards the largest uint64)
//   M:<k>:<n>            client k posts its next n numbered PRIVMSGs
//   LA:<k>               client k posts one message whose first 200 is dropped (lost answer) and retried
//   KA:<k>:<delay>       client k posts one message; SIGKILL the moment the 200 arrives; restart
//   KP:<k>:<us>:<delay>  client k posts one message; SIGKILL <us> microseconds after the request was written; restart
//   K:<delay>            SIGKILL while idle; restart          S  forced snapshot (GET /snapshot, network password)
//   Z:<ms>               SIGSTOP, <ms> ms, SIGCONT
//   R:<n>:<fault>:<us>:<arg>  all clients post n messages each concurrently; <us> microseconds after the start
//                        fault = none | kill (restart with delay <arg>) | pause (<arg> ms) | snap
//   RI:<k>:<mode>:<us>   D14 (restart + immediate retry): client k posts one message; the moment the 200
//                        arrives the answer is dropped and the node is SIGKILLed (the first copy is durable, last in the log);
//                        the node is restarted WITHOUT the Barrier (mode 1: announced as soon as raft.State()==Leader, mode 2: as
//                        soon as the listener is up, which is what main() does) and the client repeats the same body every 200 us;
//                        <us> > 0 additionally wraps the FSM handed to raft so that every FSM.Apply sleeps <us> microseconds first.
//                        A 4xx answer to the retry (session not yet replayed) ends the client (refused_while_replaying);
//                        the scenario goes on when the child reports that it has replayed its log (file caughtup-<run>)
//   X                    client 0 joins #extra and sets a topic there (so that a later JOIN #extra answers JOIN+332+333+353+366)
//   CB:<k>:<cmd>:<cut>:<mode>:<us>  CUT INSIDE A BATCH: client k posts a command whose answer is ONE output batch of several messages
//                        addressed to k itself (cmd 0 WHOIS <own nick>, 1 NAMES #verif, 2 WHO #verif, 3 LIST, 4 JOIN #extra); its live
//                        reader cuts its connection client-side after it decoded <cut> messages of that batch (id X) and stays away;
//                        mode 0: it reconnects at once with lastseen=X.<cut> (caught-up node: control); mode 1/2: the node is SIGKILLed,
//                        restarted WITHOUT the Barrier (as RI: announced at leadership / when the listener is up, FSM.Apply delayed by
//                        <us> microseconds if > 0) and the reader reconnects immediately with lastseen=X.<cut> while the node replays
//   FC:<i>               POST /config naming revision i-1 with a body whose operator is called "op<i>" (revision i-1 -> i)
//   RC:<mode>:<us>:<n>   C16 PROBE (report only, never generated by a registered check): SIGKILL; restart WITHOUT the Barrier (as RI);
//                        immediately and repeatedly POST /config naming the STALE revision 1 with a body whose operator is called "stale"
//                        until it is answered 200 or 4xx; when the node has replayed its log GET /config: revision header and operator
//                        name in force (expected: the stale post is refused with "Revision mismatch", revision n, operator op<n>)
//   FS:<k>               RAFT LOG STORE FAILURE: the next StoreLogs call of the child's raft log store that carries a client command fails
//                        once (control file <raftdir>/fail-storelogs; the wrapper sits below raft's LogCache).  raft answers the pending
//                        Apply with that error and steps down (api: HTTP 500 "Apply(): ..."), the single node re-elects itself; the entry
//                        is in no log.  Client k posts its next message into this: first attempt 5xx, then the protocol-conforming retries
//                        (same ClientMessageId) at the same node until 200 — which must mean: committed and delivered exactly once
//   G                    every client fetches the increment of its stream (resume protocol: lastseen=<last id seen>)
//   (end of line)        G, then every client fetches its whole stream (lastseen=0.0)
// LIVE READERS: from its JOIN on every client also keeps a long-poll GET .../messages?lastseen=<last id it saw> open in a
// goroutine of its own, as the bridge does: when the stream ends (node killed, request superseded or cancelled) it
// reconnects with the id of the last message it received.  It is paused only while the same session fetches with G (a new
// GetMessages request of a session supersedes the old one).  At the end the client posts "PING live-final-<k>"; the live
// reader is finished when it has seen the PONG.  What it received (live_read) is compared with the whole stream by the monitor.
// Every POST carries a client message id and is repeated with the SAME id until HTTP 200 (bounded
// back-off; while the node is down the client waits for it to come back).  The end of a stream is
// recognised by the PONG to a "PING <token>" which the client itself posted last.
// Output ($VERIF_OUT): one JSON object per scenario.

import (
	"bufio"
	"bytes"
	"context"
	"encoding/json"
	"flag"
	"fmt"
	"io"
	"log"
	"net"
	"net/http"
	"net/http/httptrace"
	"os"
	"os/exec"
	"path/filepath"
	"sort"
	"strconv"
	"strings"
	"sync"
	"syscall"
	"testing"
	"time"

	hclog "github.com/hashicorp/go-hclog"
	"github.com/hashicorp/raft"
	"github.com/robustirc/robustirc/internal/api"
	"github.com/robustirc/robustirc/internal/ircserver"
	"github.com/robustirc/robustirc/internal/outputstream"
	"github.com/robustirc/robustirc/internal/raftstore"
	"github.com/robustirc/robustirc/internal/robust"
)

const (
	vsNetwork = "verif.net"
	vsPeer    = "node0"
	vsChannel = "#verif"
	vsConfig  = "SessionExpiration = \"30m\"\nPostMessageCooloff = \"0s\"\n[IRC]\n"
)

// ---- child ----------------------------------------------------------------------------------

type vsSlowStore struct {
	raft.LogStore
	d time.Duration
}

func (s vsSlowStore) StoreLog(l *raft.Log) error {
	time.Sleep(s.d)
	return s.LogStore.StoreLog(l)
}

func (s vsSlowStore) StoreLogs(ls []*raft.Log) error {
	time.Sleep(s.d)
	return s.LogStore.StoreLogs(ls)
}

// vsSlowFSM delays every Apply (D14 probe only, $VERIF_SYS_APPLY_DELAY_US); Snapshot/Restore are the real ones.
type vsSlowFSM struct {
	*FSM
	d time.Duration
}

func (f vsSlowFSM) Apply(l *raft.Log) interface{} {
	time.Sleep(f.d)
	return f.FSM.Apply(l)
}

// vsFaultStore fails one StoreLogs call that carries a command when the control file exists (FS step).
type vsFaultStore struct {
	raft.LogStore
	ctl string
}

func (s vsFaultStore) StoreLogs(ls []*raft.Log) error {
	for _, l := range ls {
		if l.Type == raft.LogCommand {
			if _, err := os.Stat(s.ctl); err == nil {
				os.Remove(s.ctl)
				return fmt.Errorf("verif: injected failure of the raft log store (index %d)", l.Index)
			}
			break
		}
	}
	return s.LogStore.StoreLogs(ls)
}

func (s vsFaultStore) StoreLog(l *raft.Log) error { return s.StoreLogs([]*raft.Log{l}) }

func vsChildFail(format string, a ...interface{}) {
	fmt.Fprintf(os.Stderr, "sysdrv child: "+format+"\n", a...)
	os.Exit(3)
}

func TestVerifSysChild(t *testing.T) {
	dir := os.Getenv("VERIF_SYS_CHILD")
	if dir == "" {
		return
	}
	// never outlive the parent
	ppid := os.Getppid()
	go func() {
		for {
			if os.Getppid() != ppid {
				os.Exit(4)
			}
			time.Sleep(100 * time.Millisecond)
		}
	}()
	first := os.Getenv("VERIF_SYS_FIRST") == "1"
	run := os.Getenv("VERIF_SYS_RUN")
	delayUs, _ := strconv.Atoi(os.Getenv("VERIF_SYS_DELAY_US"))
	applyDelayUs, _ := strconv.Atoi(os.Getenv("VERIF_SYS_APPLY_DELAY_US"))
	noBarrier := os.Getenv("VERIF_SYS_NOBARRIER")

	*raftDir = dir
	*network = vsNetwork
	*peerAddr = vsPeer
	*networkPassword = verifApiPassword
	*useProtobuf = true
	*raftProtocolVersion = 3
	*singleNode = first
	robust.MessageOffset = *messageOffset
	flag.Set("log_dir", dir)

	if err := os.MkdirAll(*raftDir, 0700); err != nil {
		vsChildFail("%v", err)
	}
	if err := outputstream.DeleteOldDatabases(*raftDir); err != nil {
		vsChildFail("Could not delete old outputstream databases: %v", err)
	}
	if err := deleteOldCompactionDatabases(*raftDir); err != nil {
		log.Printf("Could not delete old compaction databases: %v (ignoring)", err)
	}

	ircServer = ircserver.NewIRCServer(*network, time.Now())
	var err error
	outputStream, err = outputstream.NewOutputStream(*raftDir)
	if err != nil {
		vsChildFail("Could not create new outputstream: %v", err)
	}

	_, transport := raft.NewInmemTransport(raft.ServerAddress(*peerAddr))

	config := raft.DefaultConfig()
	config.Logger = hclog.New(&hclog.LoggerOptions{Name: "raft", Level: hclog.Warn, Output: os.Stderr})
	fss, err := raft.NewFileSnapshotStoreWithLogger(*raftDir, 5, config.Logger)
	if err != nil {
		vsChildFail("%v", err)
	}
	config.SnapshotInterval = 300 * time.Second
	config.MaxAppendEntries = 1024
	config.LeaderLeaseTimeout = 50 * time.Millisecond
	config.HeartbeatTimeout = 50 * time.Millisecond
	config.ElectionTimeout = 50 * time.Millisecond
	config.CommitTimeout = 5 * time.Millisecond
	config.ProtocolVersion = raft.ProtocolVersion(*raftProtocolVersion)
	config.LocalID = raft.ServerID(*peerAddr)

	bootstrapping := *singleNode || *join != ""
	logStore, err := raftstore.NewLevelDBStore(filepath.Join(*raftDir, "raftlog"), bootstrapping, *useProtobuf)
	if err != nil {
		vsChildFail("%v", err)
	}
	if !bootstrapping {
		if err := os.RemoveAll(filepath.Join(*raftDir, "irclog")); err != nil {
			vsChildFail("%v", err)
		}
	}
	ircStore, err = raftstore.NewLevelDBStore(filepath.Join(*raftDir, "irclog"), bootstrapping, *useProtobuf)
	if err != nil {
		vsChildFail("%v", err)
	}
	fsm := &FSM{
		store:             logStore,
		ircstore:          ircStore,
		lastSnapshotState: make(map[uint64][]byte),
		ReplaceState: func(*ircserver.IRCServer, *raftstore.LevelDBStore, *outputstream.OutputStream) {
		},
	}
	var raftFSM raft.FSM = fsm
	if applyDelayUs > 0 {
		raftFSM = vsSlowFSM{FSM: fsm, d: time.Duration(applyDelayUs) * time.Microsecond}
	}
	var forRaft raft.LogStore = logStore
	if delayUs > 0 {
		forRaft = vsSlowStore{LogStore: logStore, d: time.Duration(delayUs) * time.Microsecond}
	}
	forRaft = vsFaultStore{LogStore: forRaft, ctl: filepath.Join(dir, "fail-storelogs")}
	logcache, err := raft.NewLogCache(config.MaxAppendEntries, forRaft)
	if err != nil {
		vsChildFail("%v", err)
	}

	if !bootstrapping {
		configCopy := *config
		cfg, err := raft.GetConfiguration(&configCopy, raftFSM, logcache, logStore, fss, transport)
		if err != nil {
			vsChildFail("GetConfiguration: %v", err)
		}
		if len(cfg.Servers) != 1 || string(cfg.Servers[0].Address) != *peerAddr {
			vsChildFail("unexpected raft configuration after restart: %v", cfg.Servers)
		}
		// main() exits here for a single-node network ("Only known peer is myself") and
		// consults the time safeguard otherwise; both skipped.
	}

	node, err = raft.NewRaft(config, raftFSM, logcache, logStore, fss, transport)
	if err != nil {
		vsChildFail("NewRaft: %v", err)
	}

	if *singleNode {
		if err := node.BootstrapCluster(raft.Configuration{
			Servers: []raft.Server{
				raft.Server{
					ID:      config.LocalID,
					Address: raft.ServerAddress(*peerAddr),
				},
			},
		}).Error(); err != nil {
			vsChildFail("BootstrapCluster: %v", err)
		}
	}

	api := api.NewHTTP(
		ircServer,
		node,
		ircStore,
		outputStream,
		nil,
		*network,
		*networkPassword,
		*raftDir,
		*peerAddr,
		*useProtobuf,
		*raftProtocolVersion)
	mux := http.NewServeMux()
	mux.HandleFunc("/robustirc/v1/", api.DispatchPublic)
	mux.HandleFunc("/", api.DispatchPrivate)

	fsm.ReplaceState = api.ReplaceState

	ln, err := net.Listen("tcp", "127.0.0.1:0")
	if err != nil {
		vsChildFail("listen: %v", err)
	}
	srv := http.Server{Handler: mux}
	go srv.Serve(ln)

	// announce readiness only when leader and caught up (handler_caught_up)
	// (D14 probe: VERIF_SYS_NOBARRIER=1 announces at leadership, =2 as soon as the listener is up, like main())
	deadline := time.Now().Add(30 * time.Second)
	for noBarrier != "2" && node.State() != raft.Leader {
		if time.Now().After(deadline) {
			vsChildFail("single-node raft did not become leader")
		}
		time.Sleep(100 * time.Microsecond)
	}
	if noBarrier == "" {
		if err := node.Barrier(30 * time.Second).Error(); err != nil {
			vsChildFail("Barrier: %v", err)
		}
	}
	port := ln.Addr().(*net.TCPAddr).Port
	tmp := filepath.Join(dir, "ready.tmp")
	if err := os.WriteFile(tmp, []byte(strconv.Itoa(port)), 0600); err != nil {
		vsChildFail("%v", err)
	}
	if err := os.Rename(tmp, filepath.Join(dir, "ready-"+run)); err != nil {
		vsChildFail("%v", err)
	}
	if noBarrier != "" {
		// announced early; tell the parent when the log has been replayed, so that only the
		// scripted retry races the replay
		for node.State() != raft.Leader {
			time.Sleep(100 * time.Microsecond)
		}
		if err := node.Barrier(60 * time.Second).Error(); err != nil {
			vsChildFail("Barrier: %v", err)
		}
		if err := os.WriteFile(filepath.Join(dir, "caughtup-"+run), []byte("1"), 0600); err != nil {
			vsChildFail("%v", err)
		}
	}
	for {
		time.Sleep(time.Second)
		if node.State() == raft.Shutdown {
			vsChildFail("raft state shutdown")
		}
	}
}

// ---- parent: the node as a child process --------------------------------------------------

type vsSrv struct {
	mu             sync.Mutex
	base           string // scratch directory of the scenario
	dir            string // raft directory
	run            int
	cmd            *exec.Cmd
	up             bool
	port           int
	gen            int
	started        bool
	expected       bool // the exit of the current child is scripted
	done           chan struct{}
	crashes        []string
	delayUs        int
	nextNoBarrier  int // D14 probe: options of the next start only
	nextApplyDelay int
	crashed        bool // the child died unscripted while it was serving; waitUp restarts it
	dead           bool // gave up restarting
}

func vsTail(path string, n int) string {
	b, err := os.ReadFile(path)
	if err != nil {
		return ""
	}
	if len(b) > n {
		b = b[len(b)-n:]
	}
	return string(b)
}

func vsRecordPid(pid int) {
	p := os.Getenv("VERIF_SYS_PIDS")
	if p == "" {
		return
	}
	f, err := os.OpenFile(p, os.O_APPEND|os.O_CREATE|os.O_WRONLY, 0600)
	if err != nil {
		return
	}
	fmt.Fprintf(f, "%d\n", pid)
	f.Close()
}

// start launches a child on the scenario's directories and waits until it announced itself.
func (s *vsSrv) start(delayUs int) error {
	s.mu.Lock()
	s.run++
	run := s.run
	first := !s.started
	s.delayUs = delayUs
	cmd := exec.Command(os.Args[0], "-test.run=^TestVerifSysChild$", "-test.timeout=0")
	cmd.Env = append(os.Environ(),
		"VERIF_SYS_CHILD="+s.dir, "VERIF_SYS_RUN="+strconv.Itoa(run),
		"VERIF_SYS_DELAY_US="+strconv.Itoa(delayUs))
	if s.nextNoBarrier > 0 {
		cmd.Env = append(cmd.Env, "VERIF_SYS_NOBARRIER="+strconv.Itoa(s.nextNoBarrier))
	}
	if s.nextApplyDelay > 0 {
		cmd.Env = append(cmd.Env, "VERIF_SYS_APPLY_DELAY_US="+strconv.Itoa(s.nextApplyDelay))
	}
	s.nextNoBarrier, s.nextApplyDelay = 0, 0
	if first {
		cmd.Env = append(cmd.Env, "VERIF_SYS_FIRST=1")
	} else {
		cmd.Env = append(cmd.Env, "VERIF_SYS_FIRST=0")
	}
	errPath := filepath.Join(s.base, fmt.Sprintf("stderr-%d.log", run))
	ef, err := os.Create(errPath)
	if err != nil {
		s.mu.Unlock()
		return err
	}
	cmd.Stdout = io.Discard
	cmd.Stderr = ef
	if err := cmd.Start(); err != nil {
		ef.Close()
		s.mu.Unlock()
		return err
	}
	vsRecordPid(cmd.Process.Pid)
	s.cmd = cmd
	s.expected = false
	done := make(chan struct{})
	s.done = done
	s.mu.Unlock()

	go func() {
		werr := cmd.Wait()
		ef.Close()
		s.mu.Lock()
		if s.cmd == cmd {
			if !s.expected {
				s.crashes = append(s.crashes, fmt.Sprintf("run %d: %v; stderr tail: %s", run, werr, vsTail(errPath, 1500)))
				s.crashed = s.up
			}
			s.up = false
		}
		s.mu.Unlock()
		close(done)
	}()

	ready := filepath.Join(s.dir, "ready-"+strconv.Itoa(run))
	deadline := time.Now().Add(60 * time.Second)
	for {
		if b, err := os.ReadFile(ready); err == nil {
			port, perr := strconv.Atoi(strings.TrimSpace(string(b)))
			if perr == nil {
				s.mu.Lock()
				s.port = port
				s.up = true
				s.gen++
				s.started = true
				s.mu.Unlock()
				return nil
			}
		}
		select {
		case <-done:
			return fmt.Errorf("child exited before it was ready: %s", vsTail(errPath, 1500))
		default:
		}
		if time.Now().After(deadline) {
			s.kill()
			return fmt.Errorf("child not ready after 60 s: %s", vsTail(errPath, 1500))
		}
		time.Sleep(time.Millisecond)
	}
}

// kill sends SIGKILL (scripted) and waits for the process to be gone.
func (s *vsSrv) kill() {
	s.mu.Lock()
	cmd, done := s.cmd, s.done
	s.expected = true
	s.up = false
	s.mu.Unlock()
	if cmd == nil || cmd.Process == nil {
		return
	}
	cmd.Process.Signal(syscall.SIGKILL)
	cmd.Process.Signal(syscall.SIGCONT)
	<-done
}

func (s *vsSrv) signal(sig syscall.Signal) {
	s.mu.Lock()
	cmd := s.cmd
	s.mu.Unlock()
	if cmd != nil && cmd.Process != nil {
		cmd.Process.Signal(sig)
	}
}

// waitUp blocks until the node is announced up; an unscripted crash is recorded by the waiter
// goroutine and answered here by a restart on the same directories (at most 3 times).
func (s *vsSrv) waitUp(ctx context.Context) (string, error) {
	for {
		s.mu.Lock()
		up, port, dead := s.up, s.port, s.dead
		crashed := s.crashed
		done := s.done
		ncrash := len(s.crashes)
		delay := s.delayUs
		if crashed {
			s.crashed = false // claimed by this goroutine
			s.expected = true
		}
		s.mu.Unlock()
		if up {
			return "http://127.0.0.1:" + strconv.Itoa(port), nil
		}
		if dead {
			return "", fmt.Errorf("node is gone")
		}
		if crashed {
			<-done
			if ncrash > 3 {
				s.mu.Lock()
				s.dead = true
				s.mu.Unlock()
				return "", fmt.Errorf("node crashed repeatedly")
			}
			if err := s.start(delay); err != nil {
				s.mu.Lock()
				s.dead = true
				s.crashes = append(s.crashes, "restart after crash failed: "+err.Error())
				s.mu.Unlock()
				return "", err
			}
			continue
		}
		select {
		case <-ctx.Done():
			return "", ctx.Err()
		default:
		}
		time.Sleep(500 * time.Microsecond)
	}
}

// ---- parent: clients ------------------------------------------------------------------------

type vsAck struct {
	Seq      int      `json:"seq"`
	Text     string   `json:"text"`
	Attempts int      `json:"attempts"`
	Acked    bool     `json:"acked"`
	Dropped  bool     `json:"dropped_first_ack"`
	Fails    []string `json:"fails,omitempty"`
}

type vsMsg struct {
	Id, Reply uint64
	Data      string
}

type vsCut struct {
	Cmd       string `json:"cmd"`
	Mode      int    `json:"mode"`
	Batch     uint64 `json:"batch_id"`
	K         int    `json:"messages_read_before_cut"`
	Lastseen  string `json:"reconnected_with_lastseen"`
	Outcome   string `json:"outcome"`
	ReplayMs  int64  `json:"ms_until_node_caught_up,omitempty"`
	ResumedMs int64  `json:"ms_until_reader_resumed,omitempty"`
}

type vsClient struct {
	K        int        `json:"k"`
	Nick     string     `json:"nick"`
	Created  bool       `json:"created"`
	Joined   bool       `json:"joined"`
	Scheme   int        `json:"cmid_scheme"`
	Stalled  bool       `json:"final_pong_missing"`
	Dead     string     `json:"dead,omitempty"`
	Refused  bool       `json:"refused_while_replaying"`
	Acks     []vsAck    `json:"posts"`
	Live     [][]string `json:"live"`
	Full     [][]string `json:"full"`
	FullOK   bool       `json:"full_fetched"`
	Unsorted int        `json:"ids_not_increasing"`
	Fetches  int        `json:"fetches"`
	LiveRead [][]string `json:"live_read"`
	LiveOn   bool       `json:"live_reader"`
	LiveDone bool       `json:"live_finished"`
	LiveConn int        `json:"live_connects"`
	LiveUns  int        `json:"live_ids_not_increasing"`
	LiveErrs []string   `json:"live_errors,omitempty"`
	LiveIds  []uint64   `json:"live_ids"` // idx, reply, idx, reply, ...  (idx = id - robustirc_message_offset)
	FullIds  []uint64   `json:"full_ids"`
	Diff     []string   `json:"live_vs_full,omitempty"`
	Cuts     []vsCut    `json:"cuts,omitempty"`

	liveAll     []vsMsg
	cutArm      int // cut after this many messages of the batch whose first message contains cutMatch
	cutMatch    string
	cutBatch    uint64
	cutCount    int
	cutDone     chan vsMsg
	joinedExtra bool

	liveMu     sync.Mutex
	liveWant   bool
	liveActive bool
	liveStop   bool
	liveCancel context.CancelFunc
	liveSeen   string
	liveFinal  string
	liveExited chan struct{}

	sid, auth string
	cmid      uint64
	seq       int
	lastSeen  string
	mu        sync.Mutex
}

type vsCase struct {
	ctx      context.Context
	srv      *vsSrv
	httpc    *http.Client
	streamc  *http.Client // no overall timeout: long-poll streams
	clients  map[int]*vsClient
	order    []int
	events   []string
	evMu     sync.Mutex
	sync     int
	errs     []string
	cfgProbe *vsCfgProbe
}

func (c *vsCase) event(format string, a ...interface{}) {
	c.evMu.Lock()
	c.events = append(c.events, fmt.Sprintf(format, a...))
	c.evMu.Unlock()
}

func (c *vsCase) fail(format string, a ...interface{}) {
	c.evMu.Lock()
	c.errs = append(c.errs, fmt.Sprintf(format, a...))
	c.evMu.Unlock()
}

func vsErrKind(err error) string {
	s := err.Error()
	switch {
	case strings.Contains(s, "connection refused"):
		return "refused"
	case strings.Contains(s, "connection reset"), strings.Contains(s, "EOF"), strings.Contains(s, "broken pipe"), strings.Contains(s, "closed"):
		return "reset"
	case strings.Contains(s, "deadline"), strings.Contains(s, "timeout"), strings.Contains(s, "Timeout"):
		return "timeout"
	case strings.Contains(s, "canceled"):
		return "canceled"
	}
	return "error"
}

type vsPostOpt struct {
	dropFirstAck bool
	onFirst200   func() // called when the answer that is going to be dropped arrives
	tight        bool   // D14 probe: repeat every 200 us, many attempts
	onWrote      func()
	onAck        func()
}

// post sends one IRC line with a fresh client message id and repeats it, with the same id,
// until it is answered with 200.  Returns the record of the attempts.
func (c *vsCase) post(cl *vsClient, data string, opt vsPostOpt) vsAck {
	if cl.Scheme == 0 {
		cl.cmid += 1 + uint64(cl.K)
	} else {
		cl.cmid++
	}
	cmid := cl.cmid
	body, _ := json.Marshal(struct {
		Data            string
		ClientMessageId uint64
	}{data, cmid})
	rec := vsAck{Text: data}
	backoff := 2 * time.Millisecond
	dropped := false
	maxAttempts := 200
	if opt.tight {
		maxAttempts = 50000
	}
	note := func(f string) {
		if len(rec.Fails) < 12 || !opt.tight {
			rec.Fails = append(rec.Fails, f)
		}
	}
	for rec.Attempts < maxAttempts {
		base, err := c.srv.waitUp(c.ctx)
		if err != nil {
			rec.Fails = append(rec.Fails, "node:"+vsErrKind(err))
			return rec
		}
		rec.Attempts++
		req, _ := http.NewRequestWithContext(c.ctx, "POST", base+"/robustirc/v1/"+cl.sid+"/message", bytes.NewReader(body))
		req.Header.Set("X-Session-Auth", cl.auth)
		req.Header.Set("Content-Type", "application/json")
		if opt.onWrote != nil && rec.Attempts == 1 {
			f := opt.onWrote
			req = req.WithContext(httptrace.WithClientTrace(req.Context(), &httptrace.ClientTrace{
				WroteRequest: func(httptrace.WroteRequestInfo) { f() },
			}))
		}
		resp, err := c.httpc.Do(req)
		if err == nil {
			b, _ := io.ReadAll(io.LimitReader(resp.Body, 512))
			resp.Body.Close()
			if resp.StatusCode == http.StatusOK {
				if opt.dropFirstAck && !dropped {
					dropped = true
					rec.Dropped = true
					rec.Fails = append(rec.Fails, "answer-dropped")
					if opt.onFirst200 != nil {
						opt.onFirst200()
					}
					continue
				}
				rec.Acked = true
				if opt.onAck != nil {
					opt.onAck()
				}
				return rec
			}
			if resp.StatusCode >= 400 && resp.StatusCode < 500 {
				rec.Fails = append(rec.Fails, fmt.Sprintf("status-%d:%s", resp.StatusCode, strings.TrimSpace(string(b))))
			} else {
				note(fmt.Sprintf("status-%d:%s", resp.StatusCode, strings.TrimSpace(string(b))))
			}
			if resp.StatusCode >= 400 && resp.StatusCode < 500 {
				// the protocol treats 4xx as final: the session is gone
				return rec
			}
		} else {
			note(vsErrKind(err))
			if c.ctx.Err() != nil {
				return rec
			}
		}
		if opt.tight {
			time.Sleep(200 * time.Microsecond)
			continue
		}
		time.Sleep(backoff)
		if backoff < 100*time.Millisecond {
			backoff *= 2
		}
	}
	return rec
}

func (c *vsCase) privmsg(cl *vsClient, opt vsPostOpt) bool {
	cl.mu.Lock()
	defer cl.mu.Unlock()
	if cl.Dead != "" || !cl.Joined {
		return false
	}
	cl.seq++
	text := fmt.Sprintf("m%d-%d", cl.K, cl.seq)
	rec := c.post(cl, "PRIVMSG "+vsChannel+" :"+text, opt)
	rec.Seq = cl.seq
	rec.Text = text
	cl.Acks = append(cl.Acks, rec)
	if !rec.Acked {
		cl.Dead = "post not acknowledged: " + strings.Join(rec.Fails, ",")
		return false
	}
	return true
}

func (c *vsCase) createClient(k, scheme int) {
	cl := &vsClient{K: k, Nick: fmt.Sprintf("cl%d", k), Acks: []vsAck{}, Live: [][]string{}, Full: [][]string{}, LiveRead: [][]string{}, LiveIds: []uint64{}, FullIds: []uint64{}, cmid: uint64(1000 * (k + 1)), Scheme: scheme}
	switch scheme {
	case 1:
		cl.cmid = 1<<63 + 1<<62 + uint64(k)<<40 + 12345
	case 2:
		cl.cmid = 1<<53 - 5
	case 3:
		cl.cmid = ^uint64(0) - 200000
	}
	c.clients[k] = cl
	c.order = append(c.order, k)
	for attempt := 0; attempt < 50 && !cl.Created; attempt++ {
		base, err := c.srv.waitUp(c.ctx)
		if err != nil {
			cl.Dead = "create: node " + vsErrKind(err)
			return
		}
		req, _ := http.NewRequestWithContext(c.ctx, "POST", base+"/robustirc/v1/session", nil)
		resp, err := c.httpc.Do(req)
		if err != nil {
			time.Sleep(2 * time.Millisecond)
			continue
		}
		var r struct{ Sessionid, Sessionauth string }
		derr := json.NewDecoder(resp.Body).Decode(&r)
		resp.Body.Close()
		if resp.StatusCode != http.StatusOK || derr != nil {
			cl.Dead = fmt.Sprintf("create: status %d", resp.StatusCode)
			return
		}
		cl.sid, cl.auth, cl.Created = r.Sessionid, r.Sessionauth, true
	}
	if !cl.Created {
		cl.Dead = "create: no answer"
		return
	}
	for _, line := range []string{"NICK " + cl.Nick, "USER u" + strconv.Itoa(k) + " 0 * :verif", "JOIN " + vsChannel} {
		rec := c.post(cl, line, vsPostOpt{})
		if !rec.Acked {
			cl.Dead = "setup (" + line + "): " + strings.Join(rec.Fails, ",")
			return
		}
	}
	cl.Joined = true
	if os.Getenv("VERIF_SYS_NOLIVE") == "" {
		cl.LiveOn = true
		cl.liveWant = true
		cl.liveExited = make(chan struct{})
		go c.liveLoop(cl)
	}
}

// liveLoop is the long-lived reader of one session (see LIVE READERS above).
func (c *vsCase) liveLoop(cl *vsClient) {
	defer close(cl.liveExited)
	var prev robust.Id
	for {
		cl.liveMu.Lock()
		if cl.liveStop {
			cl.liveMu.Unlock()
			return
		}
		if !cl.liveWant {
			cl.liveMu.Unlock()
			time.Sleep(200 * time.Microsecond)
			continue
		}
		ctx, cancel := context.WithCancel(c.ctx)
		cl.liveCancel = cancel
		cl.liveActive = true
		ls := cl.liveSeen
		cl.liveMu.Unlock()
		if ls == "" {
			ls = "0.0"
		}
		finished := c.liveOnce(ctx, cl, ls, &prev)
		cancel()
		cl.liveMu.Lock()
		cl.liveActive = false
		cl.liveCancel = nil
		if finished {
			cl.LiveDone = true
			cl.liveMu.Unlock()
			return
		}
		cl.liveMu.Unlock()
		if c.ctx.Err() != nil {
			return
		}
		time.Sleep(200 * time.Microsecond)
	}
}

func (c *vsCase) liveNote(cl *vsClient, f string) {
	cl.liveMu.Lock()
	if len(cl.LiveErrs) < 8 {
		cl.LiveErrs = append(cl.LiveErrs, f)
	}
	cl.liveMu.Unlock()
}

// liveOnce is one GetMessages request of the live reader; true = the final PONG was seen.
func (c *vsCase) liveOnce(ctx context.Context, cl *vsClient, lastseen string, prev *robust.Id) bool {
	base, err := c.srv.waitUp(ctx)
	if err != nil {
		return false
	}
	req, _ := http.NewRequestWithContext(ctx, "GET", base+"/robustirc/v1/"+cl.sid+"/messages?lastseen="+lastseen, nil)
	req.Header.Set("X-Session-Auth", cl.auth)
	resp, err := c.streamc.Do(req)
	if err != nil {
		return false
	}
	defer resp.Body.Close()
	if resp.StatusCode != http.StatusOK {
		b, _ := io.ReadAll(io.LimitReader(resp.Body, 200))
		c.liveNote(cl, fmt.Sprintf("status-%d:%s", resp.StatusCode, strings.TrimSpace(string(b))))
		time.Sleep(2 * time.Millisecond)
		return false
	}
	cl.liveMu.Lock()
	cl.LiveConn++
	cl.liveMu.Unlock()
	dec := json.NewDecoder(resp.Body)
	for {
		var m robust.Message
		if err := dec.Decode(&m); err != nil {
			return false
		}
		if m.Type != robust.IRCToClient {
			continue
		}
		cl.liveMu.Lock()
		if m.Id.Id < prev.Id || (m.Id.Id == prev.Id && m.Id.Reply <= prev.Reply) {
			cl.LiveUns++
		}
		*prev = m.Id
		cl.liveSeen = fmt.Sprintf("%d.%d", m.Id.Id, m.Id.Reply)
		cl.liveAll = append(cl.liveAll, vsMsg{m.Id.Id, m.Id.Reply, m.Data})
		if cl.cutArm > 0 {
			if m.Id.Id == cl.cutBatch {
				cl.cutCount++
			} else if strings.Contains(m.Data, cl.cutMatch) {
				cl.cutBatch, cl.cutCount = m.Id.Id, 1
			}
			if m.Id.Id == cl.cutBatch && cl.cutCount == cl.cutArm {
				// cut the connection inside the batch and stay away until told to come back
				cl.cutArm = 0
				cl.liveWant = false
				ch := cl.cutDone
				cl.liveMu.Unlock()
				ch <- vsMsg{m.Id.Id, m.Id.Reply, m.Data}
				return false
			}
		}
		final := cl.liveFinal
		f := strings.SplitN(m.Data, " ", 4)
		if len(f) == 4 && f[1] == "PRIVMSG" && f[2] == vsChannel {
			nick := strings.TrimPrefix(f[0], ":")
			if i := strings.Index(nick, "!"); i >= 0 {
				nick = nick[:i]
			}
			cl.LiveRead = append(cl.LiveRead, []string{nick, strings.TrimPrefix(f[3], ":")})
		}
		cl.liveMu.Unlock()
		if final != "" && len(f) >= 3 && f[1] == "PONG" && strings.TrimPrefix(f[2], ":") == final {
			return true
		}
	}
}

// liveCompare writes the ids of everything the live reader received and of the whole stream into the result, plus a
// readable difference (the python monitor decides on the ids).
func (c *vsCase) liveCompare(cl *vsClient, full []vsMsg) {
	off := *messageOffset
	cl.liveMu.Lock()
	defer cl.liveMu.Unlock()
	seen := map[[2]uint64]int{}
	for _, m := range cl.liveAll {
		cl.LiveIds = append(cl.LiveIds, m.Id-off, m.Reply)
		seen[[2]uint64{m.Id, m.Reply}]++
	}
	var lastLive [2]uint64
	if n := len(cl.liveAll); n > 0 {
		lastLive = [2]uint64{cl.liveAll[n-1].Id, cl.liveAll[n-1].Reply}
	}
	inFull := map[[2]uint64]bool{}
	for _, m := range full {
		cl.FullIds = append(cl.FullIds, m.Id-off, m.Reply)
		k := [2]uint64{m.Id, m.Reply}
		inFull[k] = true
		behind := m.Id > lastLive[0] || (m.Id == lastLive[0] && m.Reply > lastLive[1])
		if cl.LiveOn && !behind && seen[k] == 0 && len(cl.Diff) < 12 {
			cl.Diff = append(cl.Diff, fmt.Sprintf("missed %d.%d %q", m.Id-off, m.Reply, m.Data))
		}
	}
	for _, m := range cl.liveAll {
		k := [2]uint64{m.Id, m.Reply}
		if (seen[k] > 1 || !inFull[k]) && len(cl.Diff) < 12 {
			cl.Diff = append(cl.Diff, fmt.Sprintf("extra(%dx) %d.%d %q", seen[k], m.Id-off, m.Reply, m.Data))
			seen[k] = 1
			inFull[k] = true
		}
	}
}

// waitCaughtUp: after a restart without the Barrier, go on only when the child reports that it replayed its log.
func (c *vsCase) waitCaughtUp(what string) bool {
	c.srv.mu.Lock()
	cu := filepath.Join(c.srv.dir, "caughtup-"+strconv.Itoa(c.srv.run))
	done := c.srv.done
	c.srv.mu.Unlock()
	deadline := time.Now().Add(90 * time.Second)
	for {
		if _, err := os.Stat(cu); err == nil {
			return true
		}
		stop := false
		select {
		case <-done:
			stop = true
		default:
		}
		if stop || time.Now().After(deadline) || c.ctx.Err() != nil {
			c.fail("%s: the restarted node did not report that it replayed its log", what)
			return false
		}
		time.Sleep(500 * time.Microsecond)
	}
}

// cutInsideBatch: see CB in the header.
func (c *vsCase) cutInsideBatch(cl *vsClient, cmd, cut, mode, applyDelay int) bool {
	if !cl.LiveOn || cl.Dead != "" || cut < 1 {
		return true
	}
	line, match := "", ""
	switch cmd {
	case 1:
		line, match = "NAMES "+vsChannel, " 353 "
	case 2:
		line, match = "WHO "+vsChannel, " 352 "
	case 3:
		line, match = "LIST", " 322 "
	case 4:
		if !cl.joinedExtra && cl.K != 0 {
			cl.joinedExtra = true
			line, match = "JOIN #extra", " JOIN "
			break
		}
		fallthrough
	default:
		line, match = "WHOIS "+cl.Nick, " 311 "
	}
	if cmd == 1 && cut > 1 {
		cut = 1 // NAMES answers 353 + 366 only
	}
	done := make(chan vsMsg, 1)
	cl.liveMu.Lock()
	cl.cutArm, cl.cutMatch, cl.cutBatch, cl.cutCount, cl.cutDone = cut, match, 0, 0, done
	cl.liveMu.Unlock()
	cl.mu.Lock()
	rec := c.post(cl, line, vsPostOpt{})
	cl.mu.Unlock()
	rc := vsCut{Cmd: line, Mode: mode, Outcome: "no-cut"}
	if !rec.Acked {
		cl.liveMu.Lock()
		cl.cutArm = 0
		cl.liveMu.Unlock()
		cl.Dead = "command not acknowledged: " + strings.Join(rec.Fails, ",")
		return true
	}
	timer := time.NewTimer(10 * time.Second)
	defer timer.Stop()
	select {
	case m := <-done:
		rc.Batch, rc.K = m.Id-*messageOffset, cut
		rc.Lastseen = fmt.Sprintf("%d.%d", m.Id-*messageOffset, m.Reply)
		rc.Outcome = "cut"
	case <-timer.C:
		cl.liveMu.Lock()
		cl.cutArm = 0
		cl.liveWant = true
		cl.liveMu.Unlock()
		cl.Cuts = append(cl.Cuts, rc)
		c.event("CB:mode=%d:no-cut", mode)
		return true
	case <-c.ctx.Done():
		return false
	}
	// the reader is away now (liveWant=false); wait until its request is really gone
	for {
		cl.liveMu.Lock()
		a := cl.liveActive
		cl.liveMu.Unlock()
		if !a {
			break
		}
		time.Sleep(100 * time.Microsecond)
	}
	ok := true
	t0 := time.Now()
	if mode > 0 {
		c.srv.kill()
		c.srv.mu.Lock()
		c.srv.nextNoBarrier, c.srv.nextApplyDelay = mode, applyDelay
		c.srv.mu.Unlock()
		ok = c.restart(0)
	}
	cl.liveMu.Lock()
	cl.liveWant = true
	cl.liveMu.Unlock()
	rc.ResumedMs = time.Since(t0).Milliseconds()
	if mode > 0 && ok {
		ok = c.waitCaughtUp("CB")
		rc.ReplayMs = time.Since(t0).Milliseconds()
	}
	cl.Cuts = append(cl.Cuts, rc)
	c.event("CB:mode=%d:cut", mode)
	return ok
}

// livePause makes the live readers give up their requests (a G fetch of the same session would supersede them anyway).
func (c *vsCase) livePause(pause bool) {
	for _, k := range c.order {
		cl := c.clients[k]
		if !cl.LiveOn {
			continue
		}
		cl.liveMu.Lock()
		cl.liveWant = !pause
		if pause && cl.liveCancel != nil {
			cl.liveCancel()
		}
		cl.liveMu.Unlock()
	}
	if !pause {
		return
	}
	for _, k := range c.order {
		cl := c.clients[k]
		for cl.LiveOn {
			cl.liveMu.Lock()
			a := cl.liveActive
			cl.liveMu.Unlock()
			if !a {
				break
			}
			time.Sleep(100 * time.Microsecond)
		}
	}
}

// liveFinish: every client posts a last PING; its live reader must get to the PONG.  Then the readers are stopped.
func (c *vsCase) liveFinish(wait bool) {
	var wg sync.WaitGroup
	for _, k := range c.order {
		cl := c.clients[k]
		if !cl.LiveOn {
			continue
		}
		wg.Add(1)
		go func(cl *vsClient) {
			defer wg.Done()
			if wait && cl.Dead == "" && !cl.Stalled {
				token := fmt.Sprintf("live-final-%d", cl.K)
				cl.liveMu.Lock()
				cl.liveFinal = token
				cl.liveMu.Unlock()
				cl.mu.Lock()
				rec := c.post(cl, "PING "+token, vsPostOpt{})
				cl.mu.Unlock()
				if rec.Acked {
					deadline := time.NewTimer(15 * time.Second)
					select {
					case <-cl.liveExited:
					case <-deadline.C:
						c.liveNote(cl, "the PONG to the final PING did not arrive within 15 s")
						cl.Stalled = true // reported by the monitor; no further waiting for this session
					case <-c.ctx.Done():
					}
					deadline.Stop()
				} else {
					c.liveNote(cl, "final PING not acknowledged")
				}
			}
			cl.liveMu.Lock()
			cl.liveStop = true
			cl.liveWant = false
			if cl.liveCancel != nil {
				cl.liveCancel()
			}
			cl.liveMu.Unlock()
			<-cl.liveExited
		}(cl)
	}
	wg.Wait()
}

// fetch reads the client's stream from lastseen until the PONG carrying token.
func (c *vsCase) fetch(cl *vsClient, lastseen, token string, all *[]vsMsg) (msgs [][]string, last string, unsorted int, err error) {
	// Like the bridge: when the stream ends before the PONG (the request was superseded by a late-starting
	// handler of an earlier, already cancelled request of the same session, or the node went away), reconnect with
	// the id of the last message received and go on.
	ctx, cancel := context.WithTimeout(c.ctx, 30*time.Second)
	defer cancel()
	var prev robust.Id
	msgs = [][]string{}
	for attempt := 0; ; attempt++ {
		done, ferr := c.fetchOnce(ctx, cl, lastseen, token, &msgs, &last, &unsorted, &prev, all)
		if done {
			return msgs, last, unsorted, nil
		}
		if ctx.Err() != nil || attempt >= 20 {
			return msgs, last, unsorted, fmt.Errorf("stream ended before the PONG %s (%d reconnects): %v", token, attempt, ferr)
		}
		if last != "" {
			lastseen = last
		}
		time.Sleep(time.Millisecond)
	}
}

func (c *vsCase) fetchOnce(ctx context.Context, cl *vsClient, lastseen, token string, msgs *[][]string, last *string, unsorted *int, prev *robust.Id, all *[]vsMsg) (bool, error) {
	base, err := c.srv.waitUp(ctx)
	if err != nil {
		return false, err
	}
	req, _ := http.NewRequestWithContext(ctx, "GET", base+"/robustirc/v1/"+cl.sid+"/messages?lastseen="+lastseen, nil)
	req.Header.Set("X-Session-Auth", cl.auth)
	resp, err := c.streamc.Do(req)
	if err != nil {
		return false, err
	}
	defer resp.Body.Close()
	if resp.StatusCode != http.StatusOK {
		b, _ := io.ReadAll(io.LimitReader(resp.Body, 300))
		return false, fmt.Errorf("GET messages: status %d %s", resp.StatusCode, strings.TrimSpace(string(b)))
	}
	dec := json.NewDecoder(resp.Body)
	for {
		var m robust.Message
		if err := dec.Decode(&m); err != nil {
			return false, err
		}
		if m.Type != robust.IRCToClient {
			continue
		}
		if m.Id.Id < prev.Id || (m.Id.Id == prev.Id && m.Id.Reply <= prev.Reply) {
			*unsorted++
		}
		*prev = m.Id
		*last = fmt.Sprintf("%d.%d", m.Id.Id, m.Id.Reply)
		if all != nil {
			*all = append(*all, vsMsg{m.Id.Id, m.Id.Reply, m.Data})
		}
		f := strings.SplitN(m.Data, " ", 4)
		if len(f) >= 3 && f[1] == "PONG" && strings.TrimPrefix(f[2], ":") == token {
			return true, nil
		}
		if len(f) == 4 && f[1] == "PRIVMSG" && f[2] == vsChannel {
			nick := strings.TrimPrefix(f[0], ":")
			if i := strings.Index(nick, "!"); i >= 0 {
				nick = nick[:i]
			}
			*msgs = append(*msgs, []string{nick, strings.TrimPrefix(f[3], ":")})
		}
	}
}

func (c *vsCase) fetchAll(full bool) {
	c.sync++
	g := c.sync
	var wg sync.WaitGroup
	for _, k := range c.order {
		cl := c.clients[k]
		if cl.Dead != "" || !cl.Joined || cl.Stalled {
			continue
		}
		wg.Add(1)
		go func(cl *vsClient) {
			defer wg.Done()
			cl.mu.Lock()
			defer cl.mu.Unlock()
			token := fmt.Sprintf("sync%d-%d", g, cl.K)
			rec := c.post(cl, "PING "+token, vsPostOpt{})
			if !rec.Acked {
				cl.Dead = "sync ping not acknowledged: " + strings.Join(rec.Fails, ",")
				return
			}
			ls := cl.lastSeen
			if ls == "" {
				ls = "0.0"
			}
			msgs, last, uns, err := c.fetch(cl, ls, token, nil)
			cl.Unsorted += uns
			if err != nil {
				c.fail("client %d: incremental fetch from %s: %v", cl.K, ls, err)
				if strings.Contains(err.Error(), "before the PONG") {
					c.liveNote(cl, "the PONG to the acknowledged PING "+token+" did not arrive within 30 s")
					cl.Stalled = true
				}
				return
			}
			cl.Fetches++
			cl.Live = append(cl.Live, msgs...)
			if last != "" {
				cl.lastSeen = last
			}
			if full {
				var all []vsMsg
				msgs, _, uns, err := c.fetch(cl, "0.0", token, &all)
				cl.Unsorted += uns
				if err != nil {
					c.fail("client %d: full fetch: %v", cl.K, err)
					return
				}
				cl.Full, cl.FullOK = msgs, true
				c.liveCompare(cl, all)
			}
		}(cl)
	}
	wg.Wait()
}

func (c *vsCase) snapshotCount() int {
	ents, err := os.ReadDir(filepath.Join(c.srv.dir, "snapshots"))
	if err != nil {
		return 0
	}
	n := 0
	for _, e := range ents {
		if e.IsDir() && !strings.HasSuffix(e.Name(), ".tmp") {
			if _, err := os.Stat(filepath.Join(c.srv.dir, "snapshots", e.Name(), "meta.json")); err == nil {
				n++
			}
		}
	}
	return n
}

func (c *vsCase) snapshot(wait bool) {
	base, err := c.srv.waitUp(c.ctx)
	if err != nil {
		return
	}
	before := c.snapshotNames()
	req, _ := http.NewRequestWithContext(c.ctx, "GET", base+"/snapshot", nil)
	req.SetBasicAuth("robustirc", verifApiPassword)
	resp, err := c.httpc.Do(req)
	if err != nil {
		c.event("S:request-failed:%s", vsErrKind(err))
		return
	}
	io.Copy(io.Discard, resp.Body)
	resp.Body.Close()
	if resp.StatusCode != http.StatusOK {
		c.event("S:status-%d", resp.StatusCode)
		c.fail("GET /snapshot answered %d", resp.StatusCode)
		return
	}
	if !wait {
		c.event("S:requested")
		return
	}
	deadline := time.Now().Add(5 * time.Second)
	for time.Now().Before(deadline) {
		if c.snapshotNames() != before {
			c.event("S:taken")
			return
		}
		c.srv.mu.Lock()
		up := c.srv.up
		c.srv.mu.Unlock()
		if !up {
			break
		}
		time.Sleep(time.Millisecond)
	}
	c.event("S:not-seen")
}

func (c *vsCase) snapshotNames() string {
	ents, _ := os.ReadDir(filepath.Join(c.srv.dir, "snapshots"))
	var names []string
	for _, e := range ents {
		if e.IsDir() && !strings.HasSuffix(e.Name(), ".tmp") {
			names = append(names, e.Name())
		}
	}
	sort.Strings(names)
	return strings.Join(names, ",")
}

func (c *vsCase) restart(delay int) bool {
	if err := c.srv.start(delay); err != nil {
		c.fail("restart: %v", err)
		return false
	}
	return true
}

func (c *vsCase) postConfig() {
	base, err := c.srv.waitUp(c.ctx)
	if err != nil {
		return
	}
	// the current revision is read first, as the documented procedure does
	req, _ := http.NewRequestWithContext(c.ctx, "GET", base+"/config", nil)
	req.SetBasicAuth("robustirc", verifApiPassword)
	rev := "0"
	if resp, err := c.httpc.Do(req); err == nil {
		io.Copy(io.Discard, resp.Body)
		resp.Body.Close()
		if r := resp.Header.Get("X-RobustIRC-Config-Revision"); r != "" {
			rev = r
		}
	}
	req, _ = http.NewRequestWithContext(c.ctx, "POST", base+"/config", strings.NewReader(vsConfig))
	req.SetBasicAuth("robustirc", verifApiPassword)
	req.Header.Set("X-RobustIRC-Config-Revision", rev)
	resp, err := c.httpc.Do(req)
	if err != nil {
		c.fail("POST /config: %v", err)
		return
	}
	b, _ := io.ReadAll(io.LimitReader(resp.Body, 300))
	resp.Body.Close()
	if resp.StatusCode != http.StatusOK {
		c.fail("POST /config answered %d %s", resp.StatusCode, strings.TrimSpace(string(b)))
	}
}

func vsConfigBody(tag string) string {
	return "SessionExpiration = \"30m\"\nPostMessageCooloff = \"0s\"\n[IRC]\n[[IRC.Operators]]\nName = \"" + tag + "\"\nPassword = \"pw\"\n"
}

type vsCfgProbe struct {
	Mode          int      `json:"mode"`
	Expected      int      `json:"expected_revision"`
	Attempts      int      `json:"attempts"`
	Before        []string `json:"answers_before,omitempty"`
	StaleStatus   int      `json:"stale_post_status"`
	StaleAnswer   string   `json:"stale_post_answer"`
	AnsweredMs    int64    `json:"stale_post_answered_ms"`
	CaughtUpMs    int64    `json:"node_caught_up_ms"`
	FinalRevision string   `json:"revision_in_force"`
	FinalOperator string   `json:"operator_in_force"`
}

// postConfigRev posts a configuration naming revision rev; returns status and answer (0 = no answer).
func (c *vsCase) postConfigRev(rev int, tag string) (int, string) {
	base, err := c.srv.waitUp(c.ctx)
	if err != nil {
		return 0, err.Error()
	}
	req, _ := http.NewRequestWithContext(c.ctx, "POST", base+"/config", strings.NewReader(vsConfigBody(tag)))
	req.SetBasicAuth("robustirc", verifApiPassword)
	req.Header.Set("X-RobustIRC-Config-Revision", strconv.Itoa(rev))
	resp, err := c.httpc.Do(req)
	if err != nil {
		return 0, vsErrKind(err)
	}
	b, _ := io.ReadAll(io.LimitReader(resp.Body, 300))
	resp.Body.Close()
	return resp.StatusCode, strings.TrimSpace(string(b))
}

func (c *vsCase) getConfig() (string, string) {
	base, err := c.srv.waitUp(c.ctx)
	if err != nil {
		return "", ""
	}
	req, _ := http.NewRequestWithContext(c.ctx, "GET", base+"/config", nil)
	req.SetBasicAuth("robustirc", verifApiPassword)
	resp, err := c.httpc.Do(req)
	if err != nil {
		return "", ""
	}
	b, _ := io.ReadAll(io.LimitReader(resp.Body, 1<<16))
	resp.Body.Close()
	op := ""
	for _, l := range strings.Split(string(b), "\n") {
		l = strings.TrimSpace(l)
		if strings.HasPrefix(l, "Name = \"") && op == "" {
			op = strings.Trim(strings.TrimPrefix(l, "Name = "), "\"")
		}
	}
	return resp.Header.Get("X-RobustIRC-Config-Revision"), op
}

func (c *vsCase) configProbe(mode, applyDelay, expected int) bool {
	pr := &vsCfgProbe{Mode: mode, Expected: expected}
	c.cfgProbe = pr
	c.srv.kill()
	c.srv.mu.Lock()
	c.srv.nextNoBarrier, c.srv.nextApplyDelay = mode, applyDelay
	c.srv.mu.Unlock()
	t0 := time.Now()
	if !c.restart(0) {
		return false
	}
	for pr.Attempts < 50000 && c.ctx.Err() == nil {
		pr.Attempts++
		st, ans := c.postConfigRev(1, "stale")
		if st == http.StatusOK || (st >= 400 && st < 500) {
			pr.StaleStatus, pr.StaleAnswer = st, ans
			break
		}
		if len(pr.Before) < 4 {
			pr.Before = append(pr.Before, fmt.Sprintf("%d:%s", st, ans))
		}
		time.Sleep(200 * time.Microsecond)
	}
	pr.AnsweredMs = time.Since(t0).Milliseconds()
	if !c.waitCaughtUp("RC") {
		return false
	}
	pr.CaughtUpMs = time.Since(t0).Milliseconds()
	// a Barrier passed in the child; everything committed before it is applied
	pr.FinalRevision, pr.FinalOperator = c.getConfig()
	c.event("RC:mode=%d:stale=%d:rev=%s:op=%s", mode, pr.StaleStatus, pr.FinalRevision, pr.FinalOperator)
	return true
}

func vsAtoi(s string) int {
	n, _ := strconv.Atoi(s)
	return n
}

func (c *vsCase) step(tok string) bool {
	a := strings.Split(tok, ":")
	arg := func(i int) string {
		if i < len(a) {
			return a[i]
		}
		return ""
	}
	switch a[0] {
	case "N":
		if !c.restart(vsAtoi(arg(1))) {
			return false
		}
		c.event("N")
	case "F":
		c.postConfig()
	case "FC":
		i := vsAtoi(arg(1))
		if st, ans := c.postConfigRev(i-1, "op"+strconv.Itoa(i)); st != http.StatusOK {
			c.fail("FC:%d: POST /config answered %d %s", i, st, ans)
			return false
		}
	case "RC":
		if !c.configProbe(vsAtoi(arg(1)), vsAtoi(arg(2)), vsAtoi(arg(3))) {
			return false
		}
	case "C":
		c.createClient(vsAtoi(arg(1)), vsAtoi(arg(2)))
	case "X":
		if cl := c.clients[0]; cl != nil && cl.Dead == "" {
			cl.mu.Lock()
			for _, line := range []string{"JOIN #extra", "TOPIC #extra :a topic for the verification"} {
				if rec := c.post(cl, line, vsPostOpt{}); !rec.Acked {
					cl.Dead = "setup (" + line + "): " + strings.Join(rec.Fails, ",")
					break
				}
			}
			cl.joinedExtra = true
			cl.mu.Unlock()
		}
	case "CB":
		if cl := c.clients[vsAtoi(arg(1))]; cl != nil {
			if !c.cutInsideBatch(cl, vsAtoi(arg(2)), vsAtoi(arg(3)), vsAtoi(arg(4)), vsAtoi(arg(5))) {
				return false
			}
		}
	case "M":
		cl := c.clients[vsAtoi(arg(1))]
		if cl == nil {
			return true
		}
		for i := 0; i < vsAtoi(arg(2)); i++ {
			if !c.privmsg(cl, vsPostOpt{}) {
				break
			}
		}
	case "FS":
		if cl := c.clients[vsAtoi(arg(1))]; cl != nil && cl.Dead == "" && cl.Joined {
			ctl := filepath.Join(c.srv.dir, "fail-storelogs")
			if err := os.WriteFile(ctl, []byte("1"), 0600); err != nil {
				c.fail("FS: %v", err)
				return false
			}
			c.privmsg(cl, vsPostOpt{})
			used := "used"
			if _, err := os.Stat(ctl); err == nil {
				os.Remove(ctl)
				used = "unused"
			}
			att, first := 0, "-"
			cl.mu.Lock()
			if n := len(cl.Acks); n > 0 {
				att = cl.Acks[n-1].Attempts
				if len(cl.Acks[n-1].Fails) > 0 {
					first = strings.SplitN(cl.Acks[n-1].Fails[0], ":", 2)[0]
				}
			}
			cl.mu.Unlock()
			c.event("FS:%s:first=%s:attempts=%d", used, first, att)
		}
	case "LA":
		if cl := c.clients[vsAtoi(arg(1))]; cl != nil {
			c.privmsg(cl, vsPostOpt{dropFirstAck: true})
			c.event("LA")
		}
	case "KA":
		if cl := c.clients[vsAtoi(arg(1))]; cl != nil {
			killed := false
			c.privmsg(cl, vsPostOpt{onAck: func() {
				c.srv.mu.Lock()
				c.srv.expected = true
				c.srv.up = false
				p := c.srv.cmd
				c.srv.mu.Unlock()
				if p != nil && p.Process != nil {
					p.Process.Signal(syscall.SIGKILL)
					killed = true
				}
			}})
			c.srv.kill()
			c.event("KA:killed=%v", killed)
			if !c.restart(vsAtoi(arg(2))) {
				return false
			}
		}
	case "KP":
		if cl := c.clients[vsAtoi(arg(1))]; cl != nil {
			wrote := make(chan struct{}, 1)
			finished := make(chan struct{})
			go func() {
				defer close(finished)
				c.privmsg(cl, vsPostOpt{onWrote: func() {
					select {
					case wrote <- struct{}{}:
					default:
					}
				}})
			}()
			select {
			case <-wrote:
			case <-finished:
			}
			time.Sleep(time.Duration(vsAtoi(arg(2))) * time.Microsecond)
			c.srv.kill()
			c.event("KP")
			ok := c.restart(vsAtoi(arg(3)))
			<-finished
			if !ok {
				return false
			}
		}
	case "RI":
		if cl := c.clients[vsAtoi(arg(1))]; cl != nil {
			got := make(chan struct{}, 1)
			finished := make(chan struct{})
			cl.mu.Lock()
			nposts := len(cl.Acks)
			cl.mu.Unlock()
			go func() {
				defer close(finished)
				c.privmsg(cl, vsPostOpt{dropFirstAck: true, tight: true, onFirst200: func() {
					c.srv.mu.Lock()
					c.srv.expected = true
					c.srv.up = false
					p := c.srv.cmd
					c.srv.mu.Unlock()
					if p != nil && p.Process != nil {
						p.Process.Signal(syscall.SIGKILL)
					}
					got <- struct{}{}
				}})
			}()
			select {
			case <-got:
			case <-finished:
			}
			c.srv.kill()
			c.srv.mu.Lock()
			c.srv.nextNoBarrier, c.srv.nextApplyDelay = vsAtoi(arg(2)), vsAtoi(arg(3))
			c.srv.mu.Unlock()
			t0 := time.Now()
			ok := c.restart(0)
			announced := time.Since(t0)
			<-finished
			att, outcome := 0, "none"
			cl.mu.Lock()
			if n := len(cl.Acks); n > nposts {
				last := cl.Acks[n-1]
				att = last.Attempts
				switch {
				case last.Acked:
					outcome = "acked"
				case last.Dropped && len(last.Fails) > 0 && strings.HasPrefix(last.Fails[len(last.Fails)-1], "status-4"):
					outcome = "refused"
					cl.Refused = true
				default:
					outcome = "failed"
				}
			}
			cl.mu.Unlock()
			c.event("RI:mode=%s:%s:announced_ms=%d:retry_done_ms=%d:attempts=%d", arg(2), outcome, announced.Milliseconds(), time.Since(t0).Milliseconds(), att)
			if !ok {
				return false
			}
			if !c.waitCaughtUp("RI") {
				return false
			}
		}
	case "K":
		c.srv.kill()
		c.event("K")
		if !c.restart(vsAtoi(arg(1))) {
			return false
		}
	case "S":
		c.snapshot(true)
	case "Z":
		c.srv.signal(syscall.SIGSTOP)
		time.Sleep(time.Duration(vsAtoi(arg(1))) * time.Millisecond)
		c.srv.signal(syscall.SIGCONT)
		c.event("Z")
	case "R":
		n, fault, us, x := vsAtoi(arg(1)), arg(2), vsAtoi(arg(3)), vsAtoi(arg(4))
		var wg sync.WaitGroup
		for _, k := range c.order {
			cl := c.clients[k]
			wg.Add(1)
			go func(cl *vsClient) {
				defer wg.Done()
				for i := 0; i < n; i++ {
					if !c.privmsg(cl, vsPostOpt{}) {
						return
					}
				}
			}(cl)
		}
		ok := true
		if fault != "none" {
			time.Sleep(time.Duration(us) * time.Microsecond)
			switch fault {
			case "kill":
				c.srv.kill()
				ok = c.restart(x)
			case "pause":
				c.srv.signal(syscall.SIGSTOP)
				time.Sleep(time.Duration(x) * time.Millisecond)
				c.srv.signal(syscall.SIGCONT)
			case "snap":
				c.snapshot(false)
			}
		}
		wg.Wait()
		c.event("R:%s", fault)
		if !ok {
			return false
		}
	case "G":
		c.livePause(true)
		c.fetchAll(false)
		c.livePause(false)
		c.event("G")
	default:
		c.fail("unknown step %q", tok)
	}
	return true
}

type vsResult struct {
	ID      string      `json:"id"`
	Clients []*vsClient `json:"clients"`
	Events  []string    `json:"events"`
	Crashes []string    `json:"crashes"`
	Errors  []string    `json:"errors"`
	Restart int         `json:"starts"`
	Snaps   int         `json:"snapshots_on_disk"`
	Cfg     *vsCfgProbe `json:"config_probe,omitempty"`
}

func vsRunCase(line, scratch string, n int) (out string) {
	f := strings.Fields(line)
	res := vsResult{Clients: []*vsClient{}, Events: []string{}, Crashes: []string{}, Errors: []string{}}
	if len(f) < 2 || f[0] != "sys" {
		res.Errors = append(res.Errors, "bad-case")
		b, _ := json.Marshal(res)
		return string(b)
	}
	res.ID = f[1]
	base := filepath.Join(scratch, fmt.Sprintf("c%d", n))
	os.MkdirAll(base, 0700)
	ctx, cancel := context.WithTimeout(context.Background(), 150*time.Second)
	defer cancel()
	tr := &http.Transport{MaxIdleConnsPerHost: 8}
	c := &vsCase{
		ctx:     ctx,
		srv:     &vsSrv{base: base, dir: filepath.Join(base, "raft")},
		httpc:   &http.Client{Transport: tr, Timeout: 40 * time.Second},
		streamc: &http.Client{Transport: tr},
		clients: map[int]*vsClient{},
	}
	defer func() {
		if r := recover(); r != nil {
			res.Errors = append(res.Errors, fmt.Sprintf("panic: %v", r))
			b, _ := json.Marshal(res)
			out = string(b)
		}
		c.srv.kill()
		tr.CloseIdleConnections()
		os.RemoveAll(base)
	}()
	for _, tok := range f[2:] {
		if ctx.Err() != nil {
			c.fail("scenario deadline exceeded before step %s", tok)
			break
		}
		if !c.step(tok) {
			break
		}
	}
	quiet := ctx.Err() == nil && len(c.errs) == 0
	c.liveFinish(quiet)
	if quiet {
		c.fetchAll(true)
	}
	res.Snaps = c.snapshotCount()
	res.Cfg = c.cfgProbe
	for _, k := range c.order {
		res.Clients = append(res.Clients, c.clients[k])
	}
	c.srv.mu.Lock()
	res.Crashes = append(res.Crashes, c.srv.crashes...)
	res.Restart = c.srv.run
	c.srv.mu.Unlock()
	res.Events = append(res.Events, c.events...)
	res.Errors = append(res.Errors, c.errs...)
	b, _ := json.Marshal(res)
	return string(b)
}

func TestVerifSys(t *testing.T) {
	if os.Getenv("VERIF_SYS_CHILD") != "" {
		return
	}
	in, err := os.ReadFile(os.Getenv("VERIF_IN"))
	if err != nil {
		t.Fatal(err)
	}
	var lines []string
	for _, l := range strings.Split(string(in), "\n") {
		if l = strings.TrimSpace(l); l != "" {
			lines = append(lines, l)
		}
	}
	outf, err := os.Create(os.Getenv("VERIF_OUT"))
	if err != nil {
		t.Fatal(err)
	}
	defer outf.Close()
	log.SetOutput(io.Discard)
	defer log.SetOutput(os.Stderr)
	scratch, err := os.MkdirTemp("", "verif-sys-")
	if err != nil {
		t.Fatal(err)
	}
	defer os.RemoveAll(scratch)
	par := vsAtoi(os.Getenv("VERIF_SYS_PAR"))
	if par < 1 {
		par = 4
	}
	results := make([]string, len(lines))
	var wg sync.WaitGroup
	next := make(chan int)
	for w := 0; w < par; w++ {
		wg.Add(1)
		go func() {
			defer wg.Done()
			for i := range next {
				results[i] = vsRunCase(lines[i], scratch, i)
			}
		}()
	}
	for i := range lines {
		next <- i
	}
	close(next)
	wg.Wait()
	wr := bufio.NewWriter(outf)
	for _, r := range results {
		fmt.Fprintln(wr, r)
	}
	wr.Flush()
}
