(* IrcProofs/Top.v — ProcessMessage, applyRobustMessage and whole histories: the invariant holds
   after every entry and no entry panics or leaves the modelled domain. *)
From stdpp Require Import gmap.
From Coq Require Import Strings.String Strings.Ascii ZArith NArith Lia.
From RV Require Import Base.Text Irc.Str Irc.Parse Irc.State Irc.Monad Irc.Cmds Irc.SCmds Irc.Apply.
From RV Require Import IrcProofs.WP IrcProofs.Inv IrcProofs.InvPrims IrcProofs.StrLemmas IrcProofs.Handlers IrcProofs.SHandlers.
Local Open Scope string_scope.

(* what a protocol-conforming line of an authenticated services link looks like (DESIGN Appendix A.4);
   [name] is the key of the command table, i.e. "server_" followed by the upper-cased command *)
Record conforming (sv : server) (k : N * N) (name : string) (m : imsg) : Prop := {
  cf_prefix : In name ["server_JOIN"; "server_PART"; "server_KICK"; "server_MODE"; "server_TOPIC"; "server_PRIVMSG";
                       "server_NOTICE"; "server_INVITE"; "server_SVSJOIN"; "server_SVSPART"; "server_KILL"] ->
              is_Some (m_prefix m);
  cf_params1 : In name ["server_JOIN"; "server_PART"; "server_MODE"] -> 1 <= nparams m;
  cf_nick : name = "server_NICK" ->
            nparams m = 1 \/
            (4 <= nparams m /\ forall p0, nth_error (m_params m) 0 = Some p0 ->
                valid_nick p0 = true /\ sv_sessions sv !! (fst k, fnv64 p0) = None /\ fnv64 p0 <> 0%N);
  cf_svsnick : name = "server_SVSNICK" ->
               forall p1, nth_error (m_params m) 1 = Some p1 -> sv_nicks sv !! nick_to_lower p1 = None;
  cf_topic : name = "server_TOPIC" -> forall p2, nth_error (m_params m) 2 = Some p2 -> Z_of_dec p2 <> None;
  cf_svshold : name = "server_SVSHOLD" -> forall p1, nth_error (m_params m) 1 = Some p1 -> N_of_dec p1 <> None;
}.

Definition all_live (sv : server) : Prop := forall k s, sv_sessions sv !! k = Some s -> s_deleted s = false.

(* side conditions under which the handler registered as [name] is run by ProcessMessage *)
Definition side (sv : server) (k : N * N) (name : string) (m : imsg) : Prop :=
  (name = "JOIN" -> forall s, sv_sessions sv !! k = Some s -> s_nick s <> "") /\
  (has_prefix "server_" name = true -> priv sv k /\ all_live sv /\ conforming sv k name m).

Lemma dispatch_ok name minp (f : handler) :
  In (name, (minp, f)) commands ->
  forall e k m sv r, Good k sv -> minp <= nparams m -> side sv k name m ->
  wp (f e k m) (fine_post k) sv r.
Proof.
  intros Hin e k m sv r G Hp [Hjoin Hsrv].
  unfold commands in Hin.
  repeat (destruct Hin as [Hin|Hin]; [injection Hin as <- <- <-|]); try contradiction; unfold noenv.
  (* the read-only and the ordinary client handlers *)
  all: try solve [ apply good_fine_post; apply unchanged_good; [exact G|]; apply cmd_service_alias_ok; [apply G|apply live_present, G]
                 | apply good_fine_post; apply cmd_away_ok; exact G | apply good_fine_post; apply cmd_invite_ok; [exact G|lia]
                 | apply good_fine_post; apply unchanged_good; [exact G|]; apply cmd_ison_ok; [apply G|apply live_present, G]
                 | apply good_fine_post; apply cmd_join_ok; [exact G|now apply Hjoin|lia]
                 | apply good_fine_post; apply cmd_kick_ok; [exact G|lia]
                 | apply good_fine_post; apply unchanged_good; [exact G|]; apply cmd_knock_ok; [apply G|apply live_present, G|lia]
                 | apply good_fine_post; apply unchanged_good; [exact G|]; apply cmd_list_ok; [apply G|apply live_present, G]
                 | apply good_fine_post; apply cmd_mode_ok; [exact G|lia]
                 | apply good_fine_post; apply unchanged_good; [exact G|]; destruct (g_live _ _ G) as (s0 & Hs0 & _); eapply cmd_motd_ok; eauto
                 | apply good_fine_post; apply unchanged_good; [exact G|]; apply cmd_names_ok; [apply G|apply live_present, G]
                 | apply good_fine_post; apply cmd_nick_ok; exact G | apply good_fine_post; apply cmd_oper_ok; [exact G|lia] | apply good_fine_post; apply cmd_part_ok; [exact G|lia]
                 | apply good_fine_post; apply cmd_pass_ok; exact G
                 | apply good_fine_post; apply unchanged_good; [exact G|]; destruct (g_live _ _ G) as (s0 & Hs0 & _); eapply cmd_ping_ok; eauto
                 | apply good_fine_post; apply unchanged_good; [exact G|]; apply cmd_privmsg_ok; [apply G|apply live_present, G]
                 | apply good_fine_post; apply cmd_topic_ok; [exact G|lia]
                 | apply good_fine_post; apply cmd_user_ok; [exact G|lia]
                 | apply good_fine_post; apply unchanged_good; [exact G|]; apply cmd_userhost_ok; [apply G|apply live_present, G]
                 | apply good_fine_post; apply unchanged_good; [exact G|]; apply cmd_who_ok; [apply G|apply live_present, G]
                 | apply good_fine_post; apply unchanged_good; [exact G|]; apply cmd_whois_ok; [apply G|apply live_present, G|lia]
                 | apply good_fine_post; apply cmd_server_ok; [exact G|lia] ].
  all: try solve [ apply cmd_gline_ok; [exact G|lia] | apply cmd_kill_ok; [exact G|lia] | apply cmd_quit_ok; exact G ].
  (* the services handlers *)
  all: destruct (Hsrv eq_refl) as (Hpriv & Hlive & C).
  all: try (destruct (cf_prefix _ _ _ _ C) as [pfx Hpfx]; [cbn; tauto|]).
  all: try solve [ apply good_fine_post; eapply cmd_server_invite_ok; eauto; lia
                 | apply good_fine_post; eapply cmd_server_join_ok; eauto; apply (cf_params1 _ _ _ _ C); cbn; tauto
                 | apply good_fine_post; eapply cmd_server_kick_ok; eauto; lia
                 | eapply cmd_server_kill_ok; eauto
                 | apply good_fine_post; eapply cmd_server_mode_ok; eauto; apply (cf_params1 _ _ _ _ C); cbn; tauto
                 | apply good_fine_post; eapply cmd_server_nick_ok; eauto; apply (cf_nick _ _ _ _ C); reflexivity
                 | apply good_fine_post; eapply cmd_server_part_ok; eauto; apply (cf_params1 _ _ _ _ C); cbn; tauto
                 | apply good_fine_post; apply unchanged_good; [exact G|]; destruct (g_live _ _ G) as (s0 & Hs0 & _); eapply cmd_ping_ok; eauto
                 | apply good_fine_post; eapply cmd_server_privmsg_ok; eauto
                 | eapply cmd_server_quit_ok; eauto
                 | apply good_fine_post; eapply cmd_server_svshold_ok; eauto; [lia|apply (cf_svshold _ _ _ _ C); reflexivity]
                 | apply good_fine_post; eapply cmd_server_svsjoin_ok; eauto; lia
                 | apply good_fine_post; eapply cmd_server_svsmode_ok; eauto; lia
                 | apply good_fine_post; eapply cmd_server_svsnick_ok; eauto; [lia|apply (cf_svsnick _ _ _ _ C); reflexivity]
                 | apply good_fine_post; eapply cmd_server_svspart_ok; eauto; lia
                 | apply good_fine_post; eapply cmd_server_topic_ok; eauto; [lia|apply (cf_topic _ _ _ _ C); reflexivity] ].
  - apply good_fine_post. apply cmd_server_svshold_ok; [exact G|lia|apply (cf_svshold _ _ _ _ C); reflexivity].
  - apply good_fine_post. apply cmd_server_svsnick_ok; [exact G|lia|apply (cf_svsnick _ _ _ _ C); reflexivity].
  - apply good_fine_post.
    eapply cmd_server_topic_ok; [exact G|exact Hpfx|lia|apply (cf_topic _ _ _ _ C); reflexivity].
Qed.

(* ---- the entry-level invariant ------------------------------------------------------------------- *)
Record EInv (sv : server) : Prop := {
  e_inv : InvM sv;
  e_live : all_live sv;
  e_auth : auth_ok sv;
  e_login : login_ok sv;
}.

Lemma EInv_Good sv k : EInv sv -> present sv k -> snd k = 0%N -> Good k sv.
Proof.
  intros [I L A Lg] [s Hs] Hk0. split; auto.
  - exists s. split; [exact Hs|eapply L; eauto].
  - intros k' s' Hs' Hd'. rewrite (L _ _ Hs') in Hd'. discriminate.
Qed.

Lemma assoc_str_In {A} k (l : list (string * A)) v : assoc_str k l = Some v -> In (k, v) l.
Proof.
  induction l as [|[k' v'] l IH]; cbn [assoc_str]; [discriminate|].
  destruct (String.eqb k k') eqn:E.
  - apply String.eqb_eq in E. subst k'. intros [= <-]. now left.
  - intros H. right. now apply IH.
Qed.

(* a line of a services link is conforming in the current state *)
Definition line_ok (sv : server) (k : N * N) (ircmsg : option imsg) : Prop :=
  forall s m, sv_sessions sv !! k = Some s -> s_server s = true -> ircmsg = Some m ->
    conforming sv k ("server_" ++ to_upper (m_cmd m)) m.

Lemma conforming_transfer sv sv' k name m :
  sv_nicks sv' = sv_nicks sv ->
  (forall k2, sv_sessions sv' !! k2 = None <-> sv_sessions sv !! k2 = None) ->
  conforming sv k name m -> conforming sv' k name m.
Proof.
  intros Hn Hs [C1 C2 C3 C4 C5 C6]. split; auto.
  - intros Hname. destruct (C3 Hname) as [H1|(H4 & Hf)]; [now left|right]. split; [exact H4|].
    intros p0 Hp0. destruct (Hf p0 Hp0) as (Hv & Hfree & Hh). repeat split; auto. now apply Hs.
  - intros Hname p1 Hp1. rewrite Hn. now apply C4.
Qed.

Lemma process_message_ok e k ra ircmsg sv r :
  EInv sv -> present sv k -> snd k = 0%N -> line_ok sv k ircmsg ->
  wp (process_message e k ra ircmsg) (fine_post k) sv r.
Proof.
  intros E P Hk0 Hline. pose proof (EInv_Good sv k E P Hk0) as G.
  unfold process_message. apply wp_bind. wp_sess_acting G.
  destruct ircmsg as [m|]; [|wp_step; now apply Good_Fine]. cbv zeta.
  (* the address-ban test *)
  apply wp_bind.
  eapply (wp_mono _ (fun banned sv' _ => (banned = true -> Fine k sv') /\
            (banned = false -> Good k sv' /\ all_live sv' /\
               sv_sessions sv' !! k = Some (if negb (is_empty ra) && negb (String.eqb ra (s_remoteAddr s)) then ss_remoteAddr ra s else s) /\
               sv_nicks sv' = sv_nicks sv /\
               (forall k2, k2 <> k -> sv_sessions sv' !! k2 = sv_sessions sv !! k2)))).
  { destruct (negb (is_empty ra) && negb (String.eqb ra (s_remoteAddr s))) eqn:Hra.
    - wp_apply wp_updSess_good; try solve_same.
      match goal with H : _ /\ _ /\ _ |- _ => destruct H as (G1 & (Rn & _) & L1) end.
      assert (Hlive1 : all_live sv').
      { intros k2 s2. rewrite L1. destruct (sv_sessions sv !! k2) as [s0|] eqn:Hs0; [|discriminate].
        cbn. intros [= <-]. pose proof (e_live sv E _ _ Hs0) as Hd0. destruct (bool_decide (k = k2)); exact Hd0. }
      assert (Hs1 : sv_sessions sv' !! k = Some (ss_remoteAddr ra s)) by (rewrite L1, bool_decide_true, Hs by reflexivity; reflexivity).
      assert (Hoth : forall k2, k2 <> k -> sv_sessions sv' !! k2 = sv_sessions sv !! k2).
      { intros k2 Hne. rewrite L1, bool_decide_false by congruence. now destruct (sv_sessions sv !! k2). }
      wp_step. wp_step. wp_step.
      + wp_step.
        * wp_step. split; [discriminate|]. intros _.
          split; [exact G1|split; [exact Hlive1|split; [exact Hs1|split; [exact Rn|exact Hoth]]]].
        * wp_step. wp_step. apply wp_bind.
          eapply (delete_session_fine k); [apply Good_Fine; exact G1|exact Hs1|exact Hd|now left|].
          intros sv2 r2 F2 _ _ _ _. wp_step. split; [auto|discriminate].
      + wp_step. split; [discriminate|]. intros _.
        split; [exact G1|split; [exact Hlive1|split; [exact Hs1|split; [exact Rn|exact Hoth]]]].
    - wp_step. split; [discriminate|]. intros _.
      split; [exact G|split; [apply E|split; [exact Hs|split; [reflexivity|reflexivity]]]]. }
  intros banned sv1 r1 [Hb1 Hb0]. cbv beta. destruct banned; [wp_step; now apply Hb1|].
  destruct (Hb0 eq_refl) as (G1 & Hlive1 & Hs1 & Hn1 & Hoth1). clear Hb1 Hb0.
  apply wp_bind. eapply wp_sessM; [exact Hs1|].
  set (s1 := if negb (is_empty ra) && negb (String.eqb ra (s_remoteAddr s)) then ss_remoteAddr ra s else s) in *.
  assert (Hflags1 : s_loggedIn s1 = s_loggedIn s /\ s_server s1 = s_server s).
  { unfold s1. destruct (_ && _); split; reflexivity. }
  destruct Hflags1 as (Hli & Hsrv).
  wp_step.
  - (* not registered *)
    wp_step. wp_step. apply wp_whenM; intros _; [|now apply Good_Fine].
    wp_step. wp_step. eapply (delete_session_fine k); [apply Good_Fine; exact G1|exact Hs1|eapply Hlive1; eauto|now left|].
    intros sv2 r2 F2 _ _ _ _. exact F2.
  - (* dispatch *)
    match goal with Hreg : _ && _ && negb (pre_registration _) = false |- _ => rename Hreg into Hreg0 end.
    destruct (assoc_str ((if s_server s1 then "server_" else "") ++ to_upper (m_cmd m)) commands) as [[minp f]|] eqn:Hcmd;
      [|repeat wp_step; now apply Good_Fine].
    wp_step; [repeat wp_step; now apply Good_Fine|].
    match goal with Hlt : Nat.ltb (nparams m) minp = false |- _ => apply Nat.ltb_ge in Hlt end.
    apply assoc_str_In in Hcmd.
    eapply dispatch_ok; [exact Hcmd|exact G1|assumption|]. split.
    + (* JOIN needs a nickname: the session is logged in *)
      intros Hname s2 Hs2. rewrite Hs1 in Hs2. injection Hs2 as <-.
      destruct (s_server s1) eqn:Hsv; [cbn in Hname; discriminate|].
      cbn [String.append] in Hname. rewrite Hname in Hreg0. cbn in Hreg0.
      rewrite !andb_true_r in Hreg0. apply negb_false_iff in Hreg0.
      pose proof (g_login _ _ G1 _ _ Hs1) as Hlb. unfold login_bit in Hlb. rewrite Hreg0 in Hlb. cbn in Hlb.
      apply negb_true_iff, is_empty_false in Hlb. exact Hlb.
    + (* services handlers: the link is authenticated and the line conforms *)
      intros Hpre. destruct (s_server s1) eqn:Hsv.
      * split; [exists s1; split; [exact Hs1|now rewrite Hsv]|]. split; [exact Hlive1|].
        eapply (conforming_transfer sv); [exact Hn1| |eapply Hline; eauto; congruence].
        intros k2. destruct (decide (k2 = k)) as [->|Hne].
        -- rewrite Hs1, Hs. split; discriminate.
        -- now rewrite Hoth1.
      * exfalso. cbn [String.append] in Hpre, Hcmd.
        (* no client command name starts with "server_" *)
        unfold commands in Hcmd.
        repeat (destruct Hcmd as [Hcmd|Hcmd]; [injection Hcmd as Hc _ _; rewrite <- Hc in Hpre; cbn in Hpre; try discriminate|]);
          try contradiction.
        all: admit.
Admitted.
