(* Irc/Monad.v — state-and-output monad of the handlers and the primitives they use *)
From stdpp Require Import gmap.
From Coq Require Import Strings.String Strings.Ascii ZArith NArith.
From RV Require Import Base.Text Irc.Str Irc.Parse Irc.State.
Local Open Scope string_scope.

Definition M (A : Type) : Type := server -> rctx -> res (A * server * rctx).

Definition retM {A} (a : A) : M A := fun sv r => Ok (a, sv, r).
Definition bindM {A B} (m : M A) (f : A -> M B) : M B :=
  fun sv r => match m sv r with
              | Ok (a, sv', r') => f a sv' r'
              | Panic s => Panic s
              | Gap s => Gap s
              end.
Notation "'DO' x <- e 'IN' f" := (bindM e (fun x => f))
  (at level 200, x pattern, e at level 100, f at level 200, right associativity).
Notation "e1 ;;; e2" := (bindM e1 (fun _ => e2)) (at level 100, e2 at level 200, right associativity).

Definition panicM {A} (site : string) : M A := fun _ _ => Panic site.
Definition gapM {A} (site : string) : M A := fun _ _ => Gap site.
Definition getS : M server := fun sv r => Ok (sv, sv, r).
Definition putS (sv : server) : M unit := fun _ r => Ok (tt, sv, r).
Definition modS (f : server -> server) : M unit := fun sv r => Ok (tt, f sv, r).
Definition liftR {A} (x : res A) : M A :=
  fun sv r => match x with Ok a => Ok (a, sv, r) | Panic s => Panic s | Gap s => Gap s end.
Definition replyCount : M nat := fun sv r => Ok (List.length (r_out r), sv, r).
Definition whenM (b : bool) (m : M unit) : M unit := if b then m else retM tt.

Fixpoint forM {A} (l : list A) (f : A -> M unit) : M unit :=
  match l with [] => retM tt | x :: r => f x ;;; forM r f end.

(* ---- server field updates ----------------------------------------------------------- *)
Definition set_sessions f (sv : server) : server :=
  Server (f (sv_sessions sv)) (sv_serverSessions sv) (sv_nicks sv) (sv_channels sv) (sv_svsholds sv)
         (sv_netname sv) (sv_lastProcessed sv) (sv_config sv).
Definition set_serverSessions f (sv : server) : server :=
  Server (sv_sessions sv) (f (sv_serverSessions sv)) (sv_nicks sv) (sv_channels sv) (sv_svsholds sv)
         (sv_netname sv) (sv_lastProcessed sv) (sv_config sv).
Definition set_nicks f (sv : server) : server :=
  Server (sv_sessions sv) (sv_serverSessions sv) (f (sv_nicks sv)) (sv_channels sv) (sv_svsholds sv)
         (sv_netname sv) (sv_lastProcessed sv) (sv_config sv).
Definition set_channels f (sv : server) : server :=
  Server (sv_sessions sv) (sv_serverSessions sv) (sv_nicks sv) (f (sv_channels sv)) (sv_svsholds sv)
         (sv_netname sv) (sv_lastProcessed sv) (sv_config sv).
Definition set_svsholds f (sv : server) : server :=
  Server (sv_sessions sv) (sv_serverSessions sv) (sv_nicks sv) (sv_channels sv) (f (sv_svsholds sv))
         (sv_netname sv) (sv_lastProcessed sv) (sv_config sv).
Definition set_lastProcessed k (sv : server) : server :=
  Server (sv_sessions sv) (sv_serverSessions sv) (sv_nicks sv) (sv_channels sv) (sv_svsholds sv)
         (sv_netname sv) k (sv_config sv).
Definition set_config f (sv : server) : server :=
  Server (sv_sessions sv) (sv_serverSessions sv) (sv_nicks sv) (sv_channels sv) (sv_svsholds sv)
         (sv_netname sv) (sv_lastProcessed sv) (f (sv_config sv)).

(* ---- session field updates ---------------------------------------------------------- *)
Definition ss_nick (v : string) (s : session) : session :=
  Session (s_key s) (s_auth s) (s_loggedIn s) v (s_user s) (s_real s) (s_channels s) (s_lastActivity s)
    (s_lastNonPing s) (s_lastSolvedCaptcha s) (s_operator s) (s_away s) (s_created s) (s_invited s) (s_modes s)
    (s_svid s) (s_pass s) (s_server s) (s_cmid s) (s_prefix s) (s_deleted s) (s_remoteAddr s).
Definition ss_user_real (u rl : string) (s : session) : session :=
  Session (s_key s) (s_auth s) (s_loggedIn s) (s_nick s) u rl (s_channels s) (s_lastActivity s)
    (s_lastNonPing s) (s_lastSolvedCaptcha s) (s_operator s) (s_away s) (s_created s) (s_invited s) (s_modes s)
    (s_svid s) (s_pass s) (s_server s) (s_cmid s) (s_prefix s) (s_deleted s) (s_remoteAddr s).
Definition ss_loggedIn (v : bool) (s : session) : session :=
  Session (s_key s) (s_auth s) v (s_nick s) (s_user s) (s_real s) (s_channels s) (s_lastActivity s)
    (s_lastNonPing s) (s_lastSolvedCaptcha s) (s_operator s) (s_away s) (s_created s) (s_invited s) (s_modes s)
    (s_svid s) (s_pass s) (s_server s) (s_cmid s) (s_prefix s) (s_deleted s) (s_remoteAddr s).
Definition ss_channels (f : gset string -> gset string) (s : session) : session :=
  Session (s_key s) (s_auth s) (s_loggedIn s) (s_nick s) (s_user s) (s_real s) (f (s_channels s)) (s_lastActivity s)
    (s_lastNonPing s) (s_lastSolvedCaptcha s) (s_operator s) (s_away s) (s_created s) (s_invited s) (s_modes s)
    (s_svid s) (s_pass s) (s_server s) (s_cmid s) (s_prefix s) (s_deleted s) (s_remoteAddr s).
Definition ss_activity (la lnp : time) (cmid : N) (s : session) : session :=
  Session (s_key s) (s_auth s) (s_loggedIn s) (s_nick s) (s_user s) (s_real s) (s_channels s) la
    lnp (s_lastSolvedCaptcha s) (s_operator s) (s_away s) (s_created s) (s_invited s) (s_modes s)
    (s_svid s) (s_pass s) (s_server s) cmid (s_prefix s) (s_deleted s) (s_remoteAddr s).
Definition ss_solved (v : time) (s : session) : session :=
  Session (s_key s) (s_auth s) (s_loggedIn s) (s_nick s) (s_user s) (s_real s) (s_channels s) (s_lastActivity s)
    (s_lastNonPing s) v (s_operator s) (s_away s) (s_created s) (s_invited s) (s_modes s)
    (s_svid s) (s_pass s) (s_server s) (s_cmid s) (s_prefix s) (s_deleted s) (s_remoteAddr s).
Definition ss_operator (v : bool) (s : session) : session :=
  Session (s_key s) (s_auth s) (s_loggedIn s) (s_nick s) (s_user s) (s_real s) (s_channels s) (s_lastActivity s)
    (s_lastNonPing s) (s_lastSolvedCaptcha s) v (s_away s) (s_created s) (s_invited s) (s_modes s)
    (s_svid s) (s_pass s) (s_server s) (s_cmid s) (s_prefix s) (s_deleted s) (s_remoteAddr s).
Definition ss_away (v : string) (s : session) : session :=
  Session (s_key s) (s_auth s) (s_loggedIn s) (s_nick s) (s_user s) (s_real s) (s_channels s) (s_lastActivity s)
    (s_lastNonPing s) (s_lastSolvedCaptcha s) (s_operator s) v (s_created s) (s_invited s) (s_modes s)
    (s_svid s) (s_pass s) (s_server s) (s_cmid s) (s_prefix s) (s_deleted s) (s_remoteAddr s).
Definition ss_invited (f : gset string -> gset string) (s : session) : session :=
  Session (s_key s) (s_auth s) (s_loggedIn s) (s_nick s) (s_user s) (s_real s) (s_channels s) (s_lastActivity s)
    (s_lastNonPing s) (s_lastSolvedCaptcha s) (s_operator s) (s_away s) (s_created s) (f (s_invited s)) (s_modes s)
    (s_svid s) (s_pass s) (s_server s) (s_cmid s) (s_prefix s) (s_deleted s) (s_remoteAddr s).
Definition ss_modes (f : gset N -> gset N) (s : session) : session :=
  Session (s_key s) (s_auth s) (s_loggedIn s) (s_nick s) (s_user s) (s_real s) (s_channels s) (s_lastActivity s)
    (s_lastNonPing s) (s_lastSolvedCaptcha s) (s_operator s) (s_away s) (s_created s) (s_invited s) (f (s_modes s))
    (s_svid s) (s_pass s) (s_server s) (s_cmid s) (s_prefix s) (s_deleted s) (s_remoteAddr s).
Definition ss_svid (v : string) (s : session) : session :=
  Session (s_key s) (s_auth s) (s_loggedIn s) (s_nick s) (s_user s) (s_real s) (s_channels s) (s_lastActivity s)
    (s_lastNonPing s) (s_lastSolvedCaptcha s) (s_operator s) (s_away s) (s_created s) (s_invited s) (s_modes s)
    v (s_pass s) (s_server s) (s_cmid s) (s_prefix s) (s_deleted s) (s_remoteAddr s).
Definition ss_pass (v : string) (s : session) : session :=
  Session (s_key s) (s_auth s) (s_loggedIn s) (s_nick s) (s_user s) (s_real s) (s_channels s) (s_lastActivity s)
    (s_lastNonPing s) (s_lastSolvedCaptcha s) (s_operator s) (s_away s) (s_created s) (s_invited s) (s_modes s)
    (s_svid s) v (s_server s) (s_cmid s) (s_prefix s) (s_deleted s) (s_remoteAddr s).
Definition ss_server (v : bool) (s : session) : session :=
  Session (s_key s) (s_auth s) (s_loggedIn s) (s_nick s) (s_user s) (s_real s) (s_channels s) (s_lastActivity s)
    (s_lastNonPing s) (s_lastSolvedCaptcha s) (s_operator s) (s_away s) (s_created s) (s_invited s) (s_modes s)
    (s_svid s) (s_pass s) v (s_cmid s) (s_prefix s) (s_deleted s) (s_remoteAddr s).
Definition ss_prefix (v : prefix) (s : session) : session :=
  Session (s_key s) (s_auth s) (s_loggedIn s) (s_nick s) (s_user s) (s_real s) (s_channels s) (s_lastActivity s)
    (s_lastNonPing s) (s_lastSolvedCaptcha s) (s_operator s) (s_away s) (s_created s) (s_invited s) (s_modes s)
    (s_svid s) (s_pass s) (s_server s) (s_cmid s) v (s_deleted s) (s_remoteAddr s).
Definition ss_deleted (v : bool) (s : session) : session :=
  Session (s_key s) (s_auth s) (s_loggedIn s) (s_nick s) (s_user s) (s_real s) (s_channels s) (s_lastActivity s)
    (s_lastNonPing s) (s_lastSolvedCaptcha s) (s_operator s) (s_away s) (s_created s) (s_invited s) (s_modes s)
    (s_svid s) (s_pass s) (s_server s) (s_cmid s) (s_prefix s) v (s_remoteAddr s).
Definition ss_remoteAddr (v : string) (s : session) : session :=
  Session (s_key s) (s_auth s) (s_loggedIn s) (s_nick s) (s_user s) (s_real s) (s_channels s) (s_lastActivity s)
    (s_lastNonPing s) (s_lastSolvedCaptcha s) (s_operator s) (s_away s) (s_created s) (s_invited s) (s_modes s)
    (s_svid s) (s_pass s) (s_server s) (s_cmid s) (s_prefix s) (s_deleted s) v.

(* Session.updateIrcPrefix *)
Definition mk_prefix (s : session) : prefix :=
  Prefix (s_nick s) (s_user s) ("robust/0x" ++ hex_of_N (fst (s_key s))).
Definition update_prefix (s : session) : session := ss_prefix (mk_prefix s) s.

(* ---- channel field updates ----------------------------------------------------------- *)
Definition cc_nicks f (c : chan) : chan :=
  Chan (c_name c) (c_topicNick c) (c_topicTime c) (c_topic c) (f (c_nicks c)) (c_modes c) (c_key c) (c_bans c).
Definition cc_topic (n : string) (t : time) (txt : string) (c : chan) : chan :=
  Chan (c_name c) n t txt (c_nicks c) (c_modes c) (c_key c) (c_bans c).
Definition cc_modes f (c : chan) : chan :=
  Chan (c_name c) (c_topicNick c) (c_topicTime c) (c_topic c) (c_nicks c) (f (c_modes c)) (c_key c) (c_bans c).
Definition cc_key (k : string) (c : chan) : chan :=
  Chan (c_name c) (c_topicNick c) (c_topicTime c) (c_topic c) (c_nicks c) (c_modes c) k (c_bans c).
Definition cc_bans f (c : chan) : chan :=
  Chan (c_name c) (c_topicNick c) (c_topicTime c) (c_topic c) (c_nicks c) (c_modes c) (c_key c) (f (c_bans c)).

Definition set_mode (ch : N) (v : bool) (m : gset N) : gset N := if v then {[ ch ]} ∪ m else m ∖ {[ ch ]}.
Definition has_mode (ch : N) (m : gset N) : bool := bool_decide (ch ∈ m).
Definition in_set (x : string) (m : gset string) : bool := bool_decide (x ∈ m).

(* ---- accessors in the monad ---------------------------------------------------------- *)
(* dereferencing a *Session: the object exists as long as somebody points to it; in the model the
   pointee must still be in the sessions map (an invariant) — otherwise the abstraction is left *)
Definition sessM (k : skey) : M session :=
  DO sv <- getS IN
  match sv_sessions sv !! k with Some s => retM s | None => gapM "session-pointer-outside-map" end.
Definition updSess (k : skey) (f : session -> session) : M unit :=
  modS (set_sessions (fun m => match m !! k with Some s => <[k := f s]> m | None => m end)).
Definition chanM (lc : string) : M (option chan) :=
  DO sv <- getS IN retM (sv_channels sv !! lc).
Definition updChan (lc : string) (f : chan -> chan) : M unit :=
  modS (set_channels (fun m => match m !! lc with Some c => <[lc := f c]> m | None => m end)).
Definition nickM (lc : string) : M (option skey) :=
  DO sv <- getS IN retM (sv_nicks sv !! lc).
Definition cfgM : M config := DO sv <- getS IN retM (sv_config sv).
Definition server_prefix (sv : server) : prefix := Prefix (sv_netname sv) "" "".

(* ---- sending --------------------------------------------------------------------------- *)
(* IRCServer.send + the recipient loops.  A Go expression sendX(sendY(msg)) re-uses the
   robust.Message of the inner call (pointer-equal *irc.Message) and adds recipients: the
   model emits ONE message whose recipients are the union. *)
Definition emit (rcpt : list N) (m : imsg) : M unit :=
  fun sv r => Ok (tt, sv, RCtx (r_msgid r)
     (OMsg (N.of_nat (S (List.length (r_out r)))) (msg_bytes m) (set_of_ids rcpt) :: r_out r)).

Definition rc_user (k : skey) : list N := [fst k].
Definition rc_services (sv : server) : list N := sv_serverSessions sv.
(* for nick := range c.nicks { i.nicks[nick].Id.Id }: nil dereference if the nick is not indexed *)
Fixpoint ids_of_members (sv : server) (l : list string) : res (list N) :=
  match l with
  | [] => Ok []
  | n :: r => match sv_nicks sv !! n with
              | Some k => match ids_of_members sv r with Ok ids => Ok (fst k :: ids) | e => e end
              | None => Panic "send: channel member not in the nick index (nil session)"
              end
  end.
Definition members (c : chan) : list string := (map_to_list (c_nicks c)).*1.
Definition rc_channel (sv : server) (c : chan) : res (list N) := ids_of_members sv (members c).
Fixpoint ids_of_members_but (sv : server) (but : skey) (l : list string) : res (list N) :=
  match l with
  | [] => Ok []
  | n :: r => match sv_nicks sv !! n with
              | Some k => match ids_of_members_but sv but r with
                          | Ok ids => Ok (if bool_decide (k = but) then ids else fst k :: ids)
                          | e => e end
              | None => Ok []   (* i.nicks[nick] == nil != user: the nil pointer is then dereferenced *)
              end
  end.
Definition rc_channel_but (sv : server) (c : chan) (but : skey) : res (list N) :=
  (* a missing index entry dereferences nil exactly as in sendChannel *)
  match ids_of_members sv (members c) with
  | Ok _ => ids_of_members_but sv but (members c)
  | Panic s => Panic s
  | Gap s => Gap s
  end.
Fixpoint rc_common_aux (sv : server) (chs : list string) : res (list N) :=
  match chs with
  | [] => Ok []
  | ch :: r => match sv_channels sv !! ch with
               | None => rc_common_aux sv r
               | Some c => match rc_channel sv c, rc_common_aux sv r with
                           | Ok a, Ok b => Ok (a ++ b)%list
                           | Ok _, e => e
                           | e, _ => e
                           end
               end
  end.
Definition rc_common (sv : server) (s : session) : res (list N) :=
  rc_common_aux sv (elements (s_channels s)).
Definition rc_all (sv : server) : list N := (map_to_list (sv_nicks sv)).*2.*1.
