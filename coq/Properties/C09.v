(* C09 — the LevelDB store honours raft's LogStore and StableStore contracts.
   Model: Store/KV.v (one ordered byte-keyed map holding 8-byte big-endian index keys and
   stablestore- keys).  Abstract pair: Store/StoreProofs.v (astate, astep).  Domain, stated in
   [run_ok]/[op_ok]: indexes < 2^64, DeleteRange's max < 2^64-1 (max+1 wraps otherwise), stored
   entries well-formed (uint64/uint8/int64 fields), legacy JSON an abstract round-tripping codec
   that never starts with 'p'; close/reopen keeps the map (LevelDB durability, assumed).
   The pinned DeleteRange violates no-shadowing (C09_refuted) and satisfies the contract only
   outside the trigger (C09_partial: every DeleteRange avoids the index 0x737461626c657374);
   the repaired one (fixes/c09-deleterange-skip-stable.diff) satisfies it without exception. *)
From Coq Require Import List NArith ZArith Bool.
From Coq Require Import Strings.String Strings.Ascii.
From RV Require Import Store.Wire Store.Proto Store.KV.
From RV Require Import Store.ProtoProofs Store.KVProofs Store.StoreProofs.
Import ListNotations.
Local Open Scope N_scope.

(* after ANY operation sequence from the empty store (appends, range deletions, stable writes,
   close/reopen in JSON mode, all reads): the store is in simulation with the abstract pair and
   every observation is the abstract one — entries returned exactly as stored *)
Theorem C09_refinement : forall jenc jdec jdm off jdom proto ops,
  json_codec_ok jenc jdec jdom ->
  run_ok jenc jdec jdm off jdom false any_entry Repaired (empty_store proto) ops ->
  sim jdec eq any_entry (fst (run jenc jdec jdm off Repaired (empty_store proto) ops)) (arun a_empty ops) /\
  trace_ok eq a_empty ops (snd (run jenc jdec jdm off Repaired (empty_store proto) ops)).
Proof. exact (fun jenc jdec jdm off jdom => refinement_exact jenc jdec jdm off jdom Repaired). Qed.
Print Assumptions C09_refinement.

(* the same with ConvertToProto and reopening in protobuf mode anywhere in the sequence:
   entries are returned up to log_equiv (index, term, type, extensions, append time intact;
   data byte-identical or decoding to the same replicated message) *)
Theorem C09_convert : forall jenc jdec jdm off jdom proto ops,
  json_codec_ok jenc jdec jdom ->
  run_ok jenc jdec jdm off jdom true (convertible jdm off) Repaired (empty_store proto) ops ->
  sim jdec (log_equiv jdm off) (convertible jdm off)
      (fst (run jenc jdec jdm off Repaired (empty_store proto) ops)) (arun a_empty ops) /\
  trace_ok (log_equiv jdm off) a_empty ops (snd (run jenc jdec jdm off Repaired (empty_store proto) ops)).
Proof. exact (fun jenc jdec jdm off jdom => refinement_convert jenc jdec jdm off jdom Repaired). Qed.
Print Assumptions C09_convert.

(* FirstIndex / LastIndex: min / max of the log's domain, 0 when empty *)
Theorem C09_first_last : forall jdec rel P s a,
  sim jdec rel P s a ->
  (exists n, first_index (st_kv s) = ROk n /\ is_min (a_log a) n) /\
  (exists n, last_index (st_kv s) = ROk n /\ is_max (a_log a) n).
Proof. exact sim_first_last. Qed.
Print Assumptions C09_first_last.

(* GetLog: exactly the stored undeleted entry, or not-found *)
Theorem C09_get : forall jdec P s a i,
  sim jdec eq P s a -> i < U64 ->
  get_log jdec s i = match a_log a i with Some l => ObsLog l | None => ObsNotFound end.
Proof. exact sim_get_exact. Qed.
Print Assumptions C09_get.

(* DeleteRange removes exactly [min, max] from the log (either variant) *)
Theorem C09_delete_range : forall var min max i l,
  i < U64 -> min < U64 -> max < U64 - 1 ->
  kv_get (log_key i) (delete_range var min max l) =
  if (min <=? i) && (i <=? max) then None else kv_get (log_key i) l.
Proof. exact get_after_delete_range_log. Qed.
Print Assumptions C09_delete_range.

(* stable store: last write wins, nil / 0 when absent *)
Theorem C09_stable_writes : forall jenc jdec jdm off var s k v k',
  T (fst (step jenc jdec jdm off var s (OSet k v))) k' = (if String.eqb k' k then Some v else T s k') /\
  forall n, T (fst (step jenc jdec jdm off var s (OSetU64 k n))) k' =
            (if String.eqb k' k then Some (be8 n) else T s k').
Proof. exact stable_last_write. Qed.
Print Assumptions C09_stable_writes.

Theorem C09_stable_reads : forall jenc jdec jdm off var s k,
  snd (step jenc jdec jdm off var s (OGet k)) = ObsBytes (T s k) /\
  snd (step jenc jdec jdm off var s (OGetU64 k)) =
    match T s k with
    | None => ObsU64 0
    | Some v => match be8_decode v with Some n => ObsU64 n | None => ObsPanic end
    end /\
  forall n, n < U64 -> be8_decode (be8 n) = Some n.
Proof. exact stable_reads. Qed.
Print Assumptions C09_stable_reads.

(* no shadowing, for EVERY index and EVERY key (no bound): the key classes are disjoint, ... *)
Theorem C09_no_shadow_keys : forall k i, stable_key k <> log_key i.
Proof. exact stable_key_not_log_key. Qed.
Print Assumptions C09_no_shadow_keys.

(* ... log appends never change a stable read, ... *)
Theorem C09_no_shadow_log_writes : forall jenc jdec jdm off var s o k,
  is_log_write o = true -> T (fst (step jenc jdec jdm off var s o)) k = T s k.
Proof. exact log_writes_keep_stable. Qed.
Print Assumptions C09_no_shadow_log_writes.

(* ... the repaired DeleteRange never changes a stable read, whatever min and max, ... *)
Theorem C09_no_shadow_delete_range : forall jenc jdec jdm off s min max k,
  T (fst (step jenc jdec jdm off Repaired s (ODeleteRange min max))) k = T s k.
Proof. exact delete_range_keeps_stable. Qed.
Print Assumptions C09_no_shadow_delete_range.

(* ... and stable writes never change a GetLog (FirstIndex/LastIndex: C09_first_last) *)
Theorem C09_no_shadow_stable_writes : forall jenc jdec jdm off var s k v i,
  get_log jdec (fst (step jenc jdec jdm off var s (OSet k v))) i = get_log jdec s i /\
  forall n, get_log jdec (fst (step jenc jdec jdm off var s (OSetU64 k n))) i = get_log jdec s i.
Proof. exact stable_writes_keep_log. Qed.
Print Assumptions C09_no_shadow_stable_writes.

(* close/reopen (without conversion) is the identity on the map *)
Theorem C09_reopen : forall jenc jdec jdm off var s,
  st_kv (fst (step jenc jdec jdm off var s (OReopen false))) = st_kv s.
Proof. exact reopen_identity. Qed.
Print Assumptions C09_reopen.

(* the pinned tree: set k; DeleteRange(S,S) with S = 0x737461626c657374; get k -> nil *)
Theorem C09_refuted : forall jenc jdec jdm off jdom,
  run_ok jenc jdec jdm off jdom false any_entry Repaired (empty_store true) witness_ops /\
  snd (run jenc jdec jdm off Pinned (empty_store true) witness_ops) = [ObsOk; ObsOk; ObsBytes None] /\
  snd (run jenc jdec jdm off Repaired (empty_store true) witness_ops) = [ObsOk; ObsOk; ObsBytes (Some "v"%string)] /\
  ~ trace_ok eq a_empty witness_ops (snd (run jenc jdec jdm off Pinned (empty_store true) witness_ops)).
Proof. exact pinned_refuted. Qed.
Print Assumptions C09_refuted.

(* the pinned tree outside the trigger: [run_ok ... Pinned] additionally demands of every
   DeleteRange min max that not (min <= 0x737461626c657374 <= max) *)
Theorem C09_partial : forall jenc jdec jdm off jdom proto ops,
  json_codec_ok jenc jdec jdom ->
  run_ok jenc jdec jdm off jdom false any_entry Pinned (empty_store proto) ops ->
  sim jdec eq any_entry (fst (run jenc jdec jdm off Pinned (empty_store proto) ops)) (arun a_empty ops) /\
  trace_ok eq a_empty ops (snd (run jenc jdec jdm off Pinned (empty_store proto) ops)).
Proof. exact (fun jenc jdec jdm off jdom => refinement_exact jenc jdec jdm off jdom Pinned). Qed.
Print Assumptions C09_partial.

Theorem C09_partial_convert : forall jenc jdec jdm off jdom proto ops,
  json_codec_ok jenc jdec jdom ->
  run_ok jenc jdec jdm off jdom true (convertible jdm off) Pinned (empty_store proto) ops ->
  sim jdec (log_equiv jdm off) (convertible jdm off)
      (fst (run jenc jdec jdm off Pinned (empty_store proto) ops)) (arun a_empty ops) /\
  trace_ok (log_equiv jdm off) a_empty ops (snd (run jenc jdec jdm off Pinned (empty_store proto) ops)).
Proof. exact (fun jenc jdec jdm off jdom => refinement_convert jenc jdec jdm off jdom Pinned). Qed.
Print Assumptions C09_partial_convert.
