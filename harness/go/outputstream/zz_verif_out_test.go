//go:build verif

package outputstream

// Correspondence driver for property C08 (injected by `go test -overlay`, never part of
// /repo).  Reads case lines from $VERIF_IN and writes one canonical result line per case to
// $VERIF_OUT, exactly what the Coq model (coq/Out/OutDriver.v) prints for the same line.
//
//   out  <op>*     sequential program against a real OutputStream (LevelDB under $TMPDIR)
//   outc <step>*   scripted concurrent scenario: reader goroutines call the real GetNext; after
//                  every step the driver waits until every unfinished reader is parked in
//                  Cond.Wait (or has returned / panicked) before it performs the next step
//
// ops / steps (no spaces inside a token):
//   a:<id>:<batch>   Add; batch = msg{,msg}* | "-" (empty slice); msg = <reply>/<hex text|->/<rcpt{+rcpt}*|->
//   d:<id>           Delete
//   g:<id>           Get
//   n:<id>           GetNext with an already cancelled context (lookup without blocking)
//   l                LastSeen
//   s:<t>:<id>       (outc) start reader t: GetNext(ctx_t, id)
//   c:<t>            (outc) cancel ctx_t (does not wake the reader)
//   i                (outc) InterruptGetNext
//   k                Close (afterwards only n, s, c, i, j, k are issued: the LevelDB handle is closed)
//   j:<t>            (outc) report reader t: returned batch / empty / panic / blocked
// result tokens: a=ok d=ok g=<batch>|g=none n=<batch>|n=empty l=<id>.<reply> i=ok c=ok s=ok
//   j<t>=<batch>|empty|blocked   and   <op>=panic / j<t>=panic, after which the case stops.

import (
	"bufio"
	"context"
	"encoding/hex"
	"fmt"
	"os"
	"reflect"
	"runtime"
	"sort"
	"strconv"
	"strings"
	"sync"
	"testing"
	"time"

	"github.com/robustirc/robustirc/internal/robust"
)

func verifOutParseBatch(id uint64, s string) []Message {
	if s == "-" {
		return []Message{}
	}
	var msgs []Message
	for _, m := range strings.Split(s, ",") {
		p := strings.Split(m, "/")
		if len(p) != 3 {
			panic("verif: malformed message " + m)
		}
		reply, err := strconv.ParseUint(p[0], 10, 64)
		if err != nil {
			panic(err)
		}
		data := ""
		if p[1] != "-" {
			b, err := hex.DecodeString(p[1])
			if err != nil {
				panic(err)
			}
			data = string(b)
		}
		rc := make(map[uint64]bool)
		if p[2] != "-" {
			for _, r := range strings.Split(p[2], "+") {
				n, err := strconv.ParseUint(r, 10, 64)
				if err != nil {
					panic(err)
				}
				rc[n] = true
			}
		}
		msgs = append(msgs, Message{Id: robust.Id{Id: id, Reply: reply}, Data: data, InterestingFor: rc})
	}
	return msgs
}

func verifOutShowBatch(msgs []Message) string {
	if len(msgs) == 0 {
		return "empty"
	}
	var parts []string
	for _, m := range msgs {
		var rc []uint64
		for k, v := range m.InterestingFor {
			if v {
				rc = append(rc, k)
			}
		}
		sort.Slice(rc, func(i, j int) bool { return rc[i] < rc[j] })
		rs := "-"
		if len(rc) > 0 {
			var s []string
			for _, r := range rc {
				s = append(s, strconv.FormatUint(r, 10))
			}
			rs = strings.Join(s, "+")
		}
		d := "-"
		if m.Data != "" {
			d = hex.EncodeToString([]byte(m.Data))
		}
		parts = append(parts, fmt.Sprintf("%d.%d/%s/%s", m.Id.Id, m.Id.Reply, d, rs))
	}
	return strings.Join(parts, ",")
}

// verifOutParked: number of goroutines logically waiting on the condition variable
// (sync.Cond.notify.wait - .notify): a goroutine is counted from the moment it has
// registered in Cond.Wait (before it releases the mutex) until a Broadcast releases it.
func verifOutParked(o *OutputStream) int {
	nl := reflect.ValueOf(o).Elem().FieldByName("newMessage").Elem().FieldByName("notify")
	return int(uint32(nl.FieldByName("wait").Uint()) - uint32(nl.FieldByName("notify").Uint()))
}

// verifWait scales a wall-clock bound: the bounds only cost time when something is really stuck,
// so they are generous; $VERIF_WAIT_SCALE multiplies them (the check re-runs a scenario that timed
// out in isolation with larger bounds before it reports it).
func verifOutWait(d time.Duration) time.Duration {
	if s, err := strconv.ParseFloat(os.Getenv("VERIF_WAIT_SCALE"), 64); err == nil && s > 0 {
		return time.Duration(float64(d) * s)
	}
	return d
}

// verifOutGuard runs f; false if it does not finish in time (the stream's mutex is held by a
// call that died inside GetNext).
func verifOutGuard(d time.Duration, f func()) bool {
	ch := make(chan struct{})
	go func() {
		defer func() { recover() }()
		defer close(ch)
		f()
	}()
	select {
	case <-ch:
		return true
	case <-time.After(d):
		return false
	}
}

type verifReader struct {
	cancel context.CancelFunc
	mu     sync.Mutex
	done   bool
	result string
}

func (r *verifReader) status() (bool, string) {
	r.mu.Lock()
	defer r.mu.Unlock()
	return r.done, r.result
}

func verifOutU64(s string) uint64 {
	n, err := strconv.ParseUint(s, 10, 64)
	if err != nil {
		panic("verif: bad number " + s)
	}
	return n
}

// verifOutMainOp runs one sequential operation, returning its result token and whether it panicked.
func verifOutMainOp(o *OutputStream, tok string) (res string, panicked bool) {
	p := strings.SplitN(tok, ":", 3)
	defer func() {
		if e := recover(); e != nil {
			res, panicked = p[0]+"=panic", true
		}
	}()
	switch p[0] {
	case "a":
		id := verifOutU64(p[1])
		msgs := verifOutParseBatch(id, p[2])
		if err := o.Add(msgs); err != nil {
			return "a=err", false
		}
		return "a=ok", false
	case "d":
		if err := o.Delete(robust.Id{Id: verifOutU64(p[1])}); err != nil {
			return "d=err", false
		}
		return "d=ok", false
	case "g":
		msgs, ok := o.Get(robust.Id{Id: verifOutU64(p[1])})
		if !ok {
			return "g=none", false
		}
		return "g=" + verifOutShowBatch(msgs), false
	case "n":
		ctx, cancel := context.WithCancel(context.Background())
		cancel()
		return "n=" + verifOutShowBatch(o.GetNext(ctx, robust.Id{Id: verifOutU64(p[1])})), false
	case "l":
		ls := o.LastSeen()
		return fmt.Sprintf("l=%d.%d", ls.Id, ls.Reply), false
	case "i":
		o.InterruptGetNext()
		return "i=ok", false
	case "k":
		// Close: wakes every reader; GetNext answers empty from now on (a second Close only
		// returns LevelDB's "closed" error)
		o.Close()
		return "k=ok", false
	}
	return p[0] + "=unknown-op", false
}

func verifOutRunCase(f []string, tmp string) string {
	o, err := NewOutputStream(tmp)
	if err != nil {
		return f[0] + " harness-error:" + err.Error()
	}
	out := []string{f[0]}
	readers := map[string]*verifReader{}
	var order []string
	poisoned := false // a reader died inside GetNext holding the mutex: the stream is unusable

	// settle waits until every unfinished reader is parked; reports a reader panic
	settle := func() (string, bool) {
		deadline := time.Now().Add(verifOutWait(20 * time.Second))
		for {
			unfinished := 0
			for _, t := range order {
				done, res := readers[t].status()
				if done && res == "panic" {
					return "j" + t + "=panic", true
				}
				if !done {
					unfinished++
				}
			}
			if verifOutParked(o) == unfinished {
				return "", false
			}
			if time.Now().After(deadline) {
				return "stuck", true
			}
			time.Sleep(50 * time.Microsecond)
		}
	}

loop:
	for _, tok := range f[1:] {
		p := strings.SplitN(tok, ":", 3)
		switch p[0] {
		case "s":
			ctx, cancel := context.WithCancel(context.Background())
			r := &verifReader{cancel: cancel}
			readers[p[1]] = r
			order = append(order, p[1])
			x := verifOutU64(p[2])
			go func() {
				res := "panic"
				defer func() {
					recover()
					r.mu.Lock()
					r.done, r.result = true, res
					r.mu.Unlock()
				}()
				res = verifOutShowBatch(o.GetNext(ctx, robust.Id{Id: x}))
			}()
			out = append(out, "s=ok")
		case "c":
			if r, ok := readers[p[1]]; ok {
				r.cancel()
			}
			out = append(out, "c=ok")
		case "j":
			r, ok := readers[p[1]]
			if !ok {
				out = append(out, "j"+p[1]+"=unknown")
				break
			}
			if done, res := r.status(); done {
				out = append(out, "j"+p[1]+"="+res)
			} else {
				out = append(out, "j"+p[1]+"=blocked")
			}
		default:
			res, panicked := verifOutMainOp(o, tok)
			out = append(out, res)
			if panicked {
				break loop
			}
		}
		if f[0] == "outc" {
			if res, bad := settle(); bad {
				out = append(out, res)
				poisoned = true
				break loop
			}
		}
	}
	for _, r := range readers {
		r.cancel()
	}
	if !poisoned && !verifOutGuard(verifOutWait(10*time.Second), func() { o.InterruptGetNext() }) {
		poisoned = true
	}
	if !poisoned {
		deadline := time.Now().Add(verifOutWait(20 * time.Second))
	cleanup:
		for {
			unfinished := false
			for _, t := range order {
				done, res := readers[t].status()
				if done && res == "panic" {
					// died inside GetNext holding the mutex: the others can never finish
					poisoned = true
					break cleanup
				}
				if !done {
					unfinished = true
				}
			}
			if !unfinished || time.Now().After(deadline) {
				break
			}
			time.Sleep(50 * time.Microsecond)
		}
		if !poisoned {
			o.Close()
		}
	}
	return strings.Join(out, " ")
}

func TestVerifOut(t *testing.T) {
	in, err := os.Open(os.Getenv("VERIF_IN"))
	if err != nil {
		t.Fatal(err)
	}
	defer in.Close()
	var cases [][]string
	sc := bufio.NewScanner(in)
	sc.Buffer(make([]byte, 1<<20), 1<<26)
	for sc.Scan() {
		f := strings.Fields(sc.Text())
		if len(f) == 0 {
			continue
		}
		cases = append(cases, f)
	}
	tmp := t.TempDir()
	results := make([]string, len(cases))
	var wg sync.WaitGroup
	sem := make(chan struct{}, 2*runtime.NumCPU())
	for i := range cases {
		wg.Add(1)
		sem <- struct{}{}
		go func(i int) {
			defer wg.Done()
			defer func() { <-sem }()
			if cases[i][0] != "out" && cases[i][0] != "outc" {
				results[i] = "unknown-case-kind"
				return
			}
			results[i] = verifOutRunCase(cases[i], tmp)
		}(i)
	}
	wg.Wait()
	out, err := os.Create(os.Getenv("VERIF_OUT"))
	if err != nil {
		t.Fatal(err)
	}
	defer out.Close()
	w := bufio.NewWriter(out)
	defer w.Flush()
	for _, r := range results {
		fmt.Fprintln(w, r)
	}
}

// TestVerifOutStress: Get(newest) racing Add(next) on the real sync primitives (GOMAXPROCS > 1).
// After every round GetNext(newest) with an already cancelled context must return the batch
// just added and Get(newest) must still show what was added under that id; neither depends on
// how the two calls interleaved, so a correct tree can never fail this (no timing assumptions).
// env: VERIF_ROUNDS, VERIF_BUDGET_MS; result line in $VERIF_OUT:
//
//	stress rounds=<n> result=ok | stress rounds=<n> result=fail round=<r> what=<...> id=<id> got=<...> want=<...>
func TestVerifOutStress(t *testing.T) {
	rounds, _ := strconv.Atoi(os.Getenv("VERIF_ROUNDS"))
	if rounds <= 0 {
		rounds = 3000
	}
	budget, _ := strconv.Atoi(os.Getenv("VERIF_BUDGET_MS"))
	if budget <= 0 {
		budget = 8000
	}
	if runtime.GOMAXPROCS(0) < 4 {
		defer runtime.GOMAXPROCS(runtime.GOMAXPROCS(4))
	}
	out, err := os.Create(os.Getenv("VERIF_OUT"))
	if err != nil {
		t.Fatal(err)
	}
	defer out.Close()
	o, err := NewOutputStream(t.TempDir())
	if err != nil {
		t.Fatal(err)
	}
	mk := func(id uint64) []Message {
		msgs := make([]Message, 1+id%7)
		for i := range msgs {
			msgs[i] = Message{
				Id:             robust.Id{Id: id, Reply: uint64(i + 1)},
				Data:           fmt.Sprintf(":nick!user@robust/0x1 PRIVMSG #chan :batch %d reply %d, some text which is a little longer", id, i+1),
				InterestingFor: map[uint64]bool{1: true, id%5 + 2: true},
			}
		}
		return msgs
	}
	cancelled, cancel := context.WithCancel(context.Background())
	cancel()
	deadline := time.Now().Add(time.Duration(budget) * time.Millisecond)
	id := uint64(1)
	if err := o.Add(mk(id)); err != nil {
		t.Fatal(err)
	}
	res := ""
	done := 0
	for round := 0; round < rounds && time.Now().Before(deadline); round++ {
		var wg sync.WaitGroup
		start := make(chan struct{})
		var got []Message
		var gotOK bool
		wg.Add(2)
		go func() {
			defer wg.Done()
			<-start
			got, gotOK = o.Get(robust.Id{Id: id})
		}()
		go func() {
			defer wg.Done()
			<-start
			o.Add(mk(id + 1))
		}()
		close(start)
		wg.Wait()
		done++
		want := verifOutShowBatch(mk(id))
		if !gotOK || verifOutShowBatch(got) != want {
			res = fmt.Sprintf("round=%d what=racing-get-wrong id=%d got=%s want=%s", round, id, verifOutShowBatch(got), want)
			break
		}
		next := o.GetNext(cancelled, robust.Id{Id: id})
		if wantNext := verifOutShowBatch(mk(id + 1)); verifOutShowBatch(next) != wantNext {
			res = fmt.Sprintf("round=%d what=getnext-misses-successor id=%d got=%s want=%s", round, id, verifOutShowBatch(next), wantNext)
			break
		}
		if again, ok := o.Get(robust.Id{Id: id}); !ok || verifOutShowBatch(again) != want {
			res = fmt.Sprintf("round=%d what=get-after-race-wrong id=%d got=%s want=%s", round, id, verifOutShowBatch(again), want)
			break
		}
		if id > 3 {
			o.Delete(robust.Id{Id: id - 3})
		}
		id++
	}
	if res == "" {
		fmt.Fprintf(out, "stress rounds=%d result=ok\n", done)
	} else {
		fmt.Fprintf(out, "stress rounds=%d result=fail %s\n", done, res)
	}
	o.Close()
}
