(* Proofs for Sys/EndToEnd.v (property C05).  All statements are unbounded: any machine, any log,
   any number of nodes, sessions and requests; proofs by induction over the log. *)
From Coq Require Import List NArith Arith Bool Lia.
From RV Require Import Sys.EndToEnd.
Import ListNotations.

Section Composition.
  Variable M : Sys.

  (* ---------------------------------------------------------------- replay lemmas *)
  Lemma run_app : forall l1 l2 st,
    run M st (l1 ++ l2) =
    (fst (run M (fst (run M st l1)) l2), snd (run M st l1) ++ snd (run M (fst (run M st l1)) l2)).
  Proof.
    induction l1 as [|e l1 IH]; intros l2 st; cbn [run app fst snd].
    - destruct (run M st l2); reflexivity.
    - rewrite IH. cbn [fst snd]. rewrite app_assoc. reflexivity.
  Qed.

  Lemma state_of_snoc : forall l e, state_of M (l ++ [e]) = fst (step M (state_of M l) e).
  Proof. intros l e. unfold state_of. rewrite run_app. cbn. reflexivity. Qed.

  Lemma outs_of_app : forall l1 l2, outs_of M (l1 ++ l2) = outs_of M l1 ++ snd (run M (state_of M l1) l2).
  Proof. intros. unfold outs_of, state_of. rewrite run_app. reflexivity. Qed.

  (* outputs of a prefix are a prefix of the outputs *)
  Lemma outs_prefix : forall l1 l2, prefix_of l1 l2 -> prefix_of (outs_of M l1) (outs_of M l2).
  Proof. intros l1 l2 [t ->]. rewrite outs_of_app. eexists; reflexivity. Qed.

  Lemma filter_prefix : forall A (f : A -> bool) a b, prefix_of a b -> prefix_of (filter f a) (filter f b).
  Proof. intros A f a b [t ->]. rewrite filter_app. eexists; reflexivity. Qed.

  Lemma firstn_prefix : forall A (l : list A) a b, a <= b -> prefix_of (firstn a l) (firstn b l).
  Proof.
    intros A l a b Hab. exists (skipn a (firstn b l)).
    replace (firstn a l) with (firstn a (firstn b l)).
    - symmetry. apply firstn_skipn.
    - rewrite firstn_firstn. f_equal. lia.
  Qed.

  (* ---------------------------------------------------------------- same stream *)
  Section Nodes.
    Hypothesis node_state_is_replay : NodeStateIsReplay M.

    Lemma served_mono : forall i j s, applied M i <= applied M j -> prefix_of (served M i s) (served M j s).
    Proof.
      intros i j s Hle. unfold served.
      destruct (node_state_is_replay i) as [_ ->]. destruct (node_state_is_replay j) as [_ ->].
      apply filter_prefix, outs_prefix, firstn_prefix, Hle.
    Qed.

    Theorem same_stream : SameStream M.
    Proof.
      intros i j s. destruct (le_ge_dec (applied M i) (applied M j)) as [H|H].
      - left. apply served_mono, H.
      - right. apply served_mono. lia.
    Qed.
  End Nodes.

  (* ---------------------------------------------------------------- marker lemmas *)
  Section Marker.
    Hypothesis marker_init : MarkerInit M.
    Hypothesis marker_set : MarkerSet M.
    Hypothesis marker_only : MarkerOnly M.

    (* a non-zero marker was written by an applied entry with that session and id *)
    Lemma marker_from_entry : forall l s c, lastpost M (state_of M l) s = c -> c <> 0%N ->
      exists i e, nth_error l i = Some e /\ entry_key M e = Some (s, c).
    Proof.
      induction l as [|e l IH] using rev_ind; intros s c Hc Hnz.
      - exfalso. apply Hnz. rewrite <- Hc. apply marker_init.
      - rewrite state_of_snoc in Hc.
        destruct (N.eq_dec (lastpost M (fst (step M (state_of M l) e)) s) (lastpost M (state_of M l) s)) as [Heq|Hne].
        + rewrite Heq in Hc. destruct (IH s c Hc Hnz) as (i & e' & Hn & Hk).
          exists i, e'. split; [|exact Hk]. rewrite nth_error_app1; [exact Hn|].
          apply nth_error_Some. congruence.
        + apply marker_only in Hne. rewrite Hc in Hne.
          exists (length l), e. split; [|exact Hne].
          rewrite nth_error_app2 by lia. rewrite Nat.sub_diag. reflexivity.
    Qed.

    (* once an entry (s,c) is applied and every later entry of s carries c, the marker is c *)
    Lemma marker_stays : forall l s c i e, nth_error l i = Some e -> entry_key M e = Some (s, c) ->
      (forall j e' c', i < j -> nth_error l j = Some e' -> entry_key M e' = Some (s, c') -> c' = c) ->
      lastpost M (state_of M l) s = c.
    Proof.
      induction l as [|x l IH] using rev_ind; intros s c i e Hn Hk Hlater.
      - destruct i; discriminate.
      - rewrite state_of_snoc.
        destruct (Nat.eq_dec i (length l)) as [->|Hi].
        + rewrite nth_error_app2 in Hn by lia. rewrite Nat.sub_diag in Hn. cbn in Hn.
          injection Hn as ->. apply marker_set, Hk.
        + assert (Hlt : i < length l).
          { assert (i < length (l ++ [x])) by (apply nth_error_Some; congruence).
            rewrite app_length in H. cbn in H. lia. }
          rewrite nth_error_app1 in Hn by exact Hlt.
          assert (IH' : lastpost M (state_of M l) s = c).
          { apply (IH s c i e Hn Hk). intros j e' c' Hij Hj Hk'.
            apply (Hlater j e' c' Hij); [|exact Hk'].
            rewrite nth_error_app1; [exact Hj|]. apply nth_error_Some. congruence. }
          destruct (N.eq_dec (lastpost M (fst (step M (state_of M l) x)) s) (lastpost M (state_of M l) s)) as [Heq|Hne].
          * rewrite Heq. exact IH'.
          * apply marker_only in Hne.
            apply (Hlater (length l) x _ Hlt); [|exact Hne].
            rewrite nth_error_app2 by lia. rewrite Nat.sub_diag. reflexivity.
    Qed.
  End Marker.

  Lemma nth_error_firstn_lt : forall A (l : list A) k i, i < k -> nth_error (firstn k l) i = nth_error l i.
  Proof.
    intros A l. induction l as [|x l IH]; intros k i Hik.
    - rewrite firstn_nil. reflexivity.
    - destruct k; [lia|]. destruct i; cbn; [reflexivity|]. apply IH. lia.
  Qed.

  Lemma nth_error_firstn_some : forall A (l : list A) k i x, nth_error (firstn k l) i = Some x ->
    i < k /\ nth_error l i = Some x.
  Proof.
    intros A l k i x H.
    assert (Hlen : i < length (firstn k l)) by (apply nth_error_Some; congruence).
    rewrite firstn_length in Hlen. assert (i < k) by lia.
    split; [assumption|]. rewrite <- H. symmetry. apply nth_error_firstn_lt. assumption.
  Qed.

  (* ---------------------------------------------------------------- durability of acknowledgements *)
  Section Durable.
    Hypothesis proposal_entry : ProposalEntry M.
    Hypothesis ack_implies_committed : AckImpliesCommitted M.
    Hypothesis marker_init : MarkerInit M.
    Hypothesis marker_only : MarkerOnly M.
    Hypothesis cmid_nonzero : CmidNonzero M.

    (* This IS the raft-contract hypothesis [ack_implies_committed] composed with the handler
       model: on the proposal path the entry is in L by the contract; on the dedup path the marker
       equals the id, and a non-zero marker can only have been written by an applied entry of L. *)
    Theorem ack_durable : AckDurable M.
    Proof.
      intros s n Hn Hack. destruct (ack_implies_committed s n Hn Hack) as [[i Hi]|Hm].
      - exists i. apply (proposal_entry s n i Hn Hi).
      - unfold seen_state in Hm.
        destruct (marker_from_entry marker_init marker_only _ _ _ Hm (cmid_nonzero s n Hn)) as (i & e & Hi & Hk).
        apply nth_error_firstn_some in Hi. destruct Hi as [_ Hi].
        exists i, e. split; assumption.
    Qed.
  End Durable.

  (* ---------------------------------------------------------------- exactly once *)
  Section ExactlyOnce.
    Hypothesis node_state_is_replay : NodeStateIsReplay M.
    Hypothesis seen_le_len : SeenLeLen M.
    Hypothesis proposal_appends : ProposalAppends M.
    Hypothesis proposal_entry : ProposalEntry M.
    Hypothesis log_from_requests : LogFromRequests M.
    Hypothesis ack_implies_committed : AckImpliesCommitted M.
    Hypothesis handler_dedup : HandlerDedup M.
    Hypothesis marker_init : MarkerInit M.
    Hypothesis marker_set : MarkerSet M.
    Hypothesis marker_only : MarkerOnly M.
    Hypothesis cmid_nonzero : CmidNonzero M.
    Hypothesis client_no_return : ClientNoReturn M.
    Hypothesis earlier_requests_settled : EarlierRequestsSettled M.
    Hypothesis handler_caught_up : HandlerCaughtUp M.

    (* two committed copies of one post come from one request *)
    Lemma copies_unique : forall s c i1 i2, copy_at M s c i1 -> copy_at M s c i2 -> i1 < i2 -> False.
    Proof.
      intros s c i1 i2 H1 H2 Hlt.
      destruct (log_from_requests s c i1 H1) as (n1 & Hn1 & Hc1 & Hi1).
      destruct (log_from_requests s c i2 H2) as (n2 & Hn2 & Hc2 & Hi2).
      destruct (lt_eq_lt_dec n1 n2) as [[Hn|Hn]|Hn].
      - (* n1 earlier: the retry n2 has seen the copy at i1 and every later entry of s up to
           its view carries c: its marker comparison succeeds, it cannot have proposed *)
        assert (Hseen : r_seen M s n2 = r_len M s n2) by (apply (handler_caught_up s n1 n2 Hn Hn2); congruence).
        assert (Hi1seen : i1 < r_seen M s n2).
        { rewrite Hseen. apply (earlier_requests_settled s n1 n2 i1 Hn Hn2 Hi1). }
        apply (handler_dedup s n2 i2 Hn2 Hi2). rewrite Hc2. unfold seen_state.
        destruct H1 as (e1 & He1 & Hk1).
        apply (marker_stays marker_set marker_only _ s c i1 e1).
        + rewrite nth_error_firstn_lt by exact Hi1seen. exact He1.
        + exact Hk1.
        + intros j e' c' Hij Hj Hk'.
          apply nth_error_firstn_some in Hj. destruct Hj as [Hjseen Hj].
          destruct (N.eq_dec c' c) as [|Hcc]; [assumption|exfalso].
          destruct (log_from_requests s c' j (ex_intro _ e' (conj Hj Hk'))) as (n' & Hn' & Hc' & Hi').
          destruct (lt_eq_lt_dec n' n1) as [[Hq|Hq]|Hq].
          * pose proof (earlier_requests_settled s n' n1 j Hq Hn1 Hi').
            pose proof (proposal_appends s n1 i1 Hn1 Hi1). lia.
          * subst n'. congruence.
          * destruct (lt_eq_lt_dec n' n2) as [[Hr|Hr]|Hr].
            -- assert (r_cmid M s n' = r_cmid M s n1) by (apply (client_no_return s n1 n' n2 Hq Hr Hn2); congruence). congruence.
            -- subst n'. congruence.
            -- pose proof (earlier_requests_settled s n2 n' i2 Hr Hn' Hi2).
               pose proof (proposal_appends s n' j Hn' Hi').
               pose proof (seen_le_len s n2 Hn2).
               pose proof (proposal_appends s n2 i2 Hn2 Hi2). lia.
      - subst n2. rewrite Hi1 in Hi2. injection Hi2. lia.
      - pose proof (earlier_requests_settled s n2 n1 i2 Hn Hn1 Hi2).
        pose proof (proposal_appends s n1 i1 Hn1 Hi1). lia.
    Qed.

    Theorem exactly_once_in_log : ExactlyOnceInLog M.
    Proof.
      intros s n Hn Hack.
      destruct (ack_durable proposal_entry ack_implies_committed marker_init marker_only cmid_nonzero s n Hn Hack) as [i Hi].
      exists i. split; [exact Hi|]. intros j Hj.
      destruct (lt_eq_lt_dec i j) as [[H|H]|H]; [exfalso|congruence|exfalso].
      - apply (copies_unique _ _ _ _ Hi Hj H).
      - apply (copies_unique _ _ _ _ Hj Hi H).
    Qed.

    Theorem sender_order : SenderOrder M.
    Proof.
      intros s n n' i i' Hnn Hn' Hdiff Hi Hi'.
      destruct (log_from_requests s _ i Hi) as (m & Hm & Hcm & Him).
      destruct (log_from_requests s _ i' Hi') as (m' & Hm' & Hcm' & Him').
      destruct (lt_eq_lt_dec m m') as [[H|H]|H].
      - pose proof (earlier_requests_settled s m m' i H Hm' Him).
        pose proof (proposal_appends s m' i' Hm' Him'). lia.
      - subst m'. congruence.
      - exfalso. (* m' (id of n') before m (id of n), although n before n': the client returned to an id *)
        destruct (lt_eq_lt_dec n m') as [[Hq|Hq]|Hq].
        + assert (r_cmid M s m' = r_cmid M s n) by (apply (client_no_return s n m' m Hq H Hm); congruence). congruence.
        + subst m'. congruence.
        + assert (r_cmid M s n = r_cmid M s m') by (apply (client_no_return s m' n n' Hq Hnn Hn'); congruence). congruence.
    Qed.

    Lemma split_at : forall A (l : list A) i e, nth_error l i = Some e -> l = firstn i l ++ e :: skipn (S i) l.
    Proof.
      intros A l. induction l as [|x l IH]; intros i e H.
      - destruct i; discriminate.
      - destruct i; cbn in *.
        + injection H as ->. reflexivity.
        + f_equal. apply IH, H.
    Qed.

    Lemma firstn_S_nth : forall A (l : list A) i e, nth_error l i = Some e -> firstn (S i) l = firstn i l ++ [e].
    Proof.
      intros A l. induction l as [|x l IH]; intros i e H.
      - destruct i; discriminate.
      - destruct i.
        + cbn in H. injection H as ->. reflexivity.
        + cbn in H. change (x :: firstn (S i) l = x :: (firstn i l ++ [e])). f_equal. apply IH, H.
    Qed.

    Lemma in_nth : forall A (l : list A) x, In x l -> exists k, nth_error l k = Some x.
    Proof. intros A l x H. apply In_nth_error, H. Qed.

    Theorem delivered_once : DeliveredOnce M.
    Proof.
      intros s n Hn Hack.
      destruct (exactly_once_in_log s n Hn Hack) as (i & (e & He & Hk) & Huniq).
      exists i, e. split; [exact He|]. split; [exact Hk|].
      intros j r Hij rest.
      set (l := firstn (applied M j) (L M)).
      assert (Hl : nth_error l i = Some e) by (unfold l; rewrite nth_error_firstn_lt by exact Hij; exact He).
      assert (Hfi : firstn i l = firstn i (L M)).
      { unfold l. rewrite firstn_firstn. f_equal. lia. }
      pose proof (split_at _ l i e Hl) as Hsplit. rewrite Hfi in Hsplit.
      split; [|split].
      - unfold served. destruct (node_state_is_replay j) as [_ ->]. fold l.
        rewrite Hsplit at 1. rewrite outs_of_app. rewrite filter_app. f_equal.
        cbn [run]. cbn [fst snd]. rewrite filter_app. f_equal. f_equal.
        assert (Hs : firstn (S i) (L M) = firstn i (L M) ++ [e]) by (apply firstn_S_nth, He).
        rewrite Hs. rewrite state_of_snoc. reflexivity.
      - intros e' Hin Hk'. apply in_nth in Hin. destruct Hin as [k Hkk].
        apply nth_error_firstn_some in Hkk. destruct Hkk as [Hki Hkk].
        assert (k = i) by (apply Huniq; exists e'; split; assumption). lia.
      - intros e' Hin Hk'. apply in_nth in Hin. destruct Hin as [k Hkk].
        assert (Hnl : nth_error l (S i + k) = Some e').
        { rewrite Hsplit. rewrite nth_error_app2 by (rewrite firstn_length; lia).
          rewrite firstn_length. assert (i < length (L M)) by (apply nth_error_Some; congruence).
          replace (S i + k - Nat.min i (length (L M))) with (S k) by lia. exact Hkk. }
        unfold l in Hnl. apply nth_error_firstn_some in Hnl. destruct Hnl as [_ Hnl].
        assert (S i + k = i) by (apply Huniq; exists e'; split; assumption). lia.
    Qed.
  End ExactlyOnce.
End Composition.

(* ---------------------------------------------------------------- closed statements *)
Theorem composition_same_stream : forall M, NodeStateIsReplay M -> SameStream M.
Proof. exact same_stream. Qed.

Theorem composition_ack_durable : forall M,
  ProposalEntry M -> AckImpliesCommitted M -> MarkerInit M -> MarkerOnly M -> CmidNonzero M -> AckDurable M.
Proof. exact ack_durable. Qed.

Theorem composition_exactly_once : forall M, ContractWithoutCaughtUp M -> HandlerCaughtUp M ->
  ExactlyOnceInLog M /\ SenderOrder M /\ DeliveredOnce M.
Proof.
  intros M (H1 & H2 & H3 & H4 & H5 & H6 & H7 & H8 & H9 & H10 & H11 & H12 & H13) Hc.
  split; [|split].
  - apply exactly_once_in_log; assumption.
  - apply sender_order; assumption.
  - apply delivered_once; assumption.
Qed.

(* ---------------------------------------------------------------- the hypotheses are satisfiable *)
Ltac req2 n := destruct n as [|[|n]]; [| |cbn in *; lia].

Lemma tiny_copy_at : forall log na nq cm ln sn ix ak c i,
  copy_at (tiny log na nq cm ln sn ix ak) tt c i <-> nth_error log i = Some c.
Proof.
  intros. unfold copy_at. cbn. split.
  - intros (e & He & Hk). injection Hk as ->. exact He.
  - intros H. exists c. split; [exact H|reflexivity].
Qed.

Lemma tiny_marker : forall log na nq cm ln sn ix ak,
  let T := tiny log na nq cm ln sn ix ak in MarkerInit T /\ MarkerSet T /\ MarkerOnly T.
Proof.
  intros. split; [|split].
  - intros s. reflexivity.
  - intros st e s c H. cbn in *. injection H as _ ->. reflexivity.
  - intros st e s H. cbn in *. destruct s. reflexivity.
Qed.

Example tiny_ok_contract : ContractWithoutCaughtUp tiny_ok /\ HandlerCaughtUp tiny_ok.
Proof.
  destruct (tiny_marker [5%N; 6%N] (fun b : bool => if b then 2 else 1) 2
              (fun n => match n with 0 => 5%N | _ => 6%N end) (fun n => n) (fun n => n)
              (fun n => Some n) (fun _ => true)) as (Hmi & Hms & Hmo).
  split; [unfold ContractWithoutCaughtUp; repeat apply conj|].
  - intros i. split; destruct i; reflexivity.
  - intros s n Hn. cbn. lia.
  - intros s n i Hn Hi. cbn in *. injection Hi as <-. lia.
  - intros s n i Hn Hi. destruct s. apply tiny_copy_at. cbn in Hi. injection Hi as <-.
    cbn in Hn. req2 n; reflexivity.
  - intros s c i H. destruct s. apply tiny_copy_at in H. cbn.
    destruct i as [|[|i]]; cbn in H.
    + injection H as <-. exists 0. repeat split; lia.
    + injection H as <-. exists 1. repeat split; lia.
    + destruct i; discriminate.
  - intros s n Hn _. left. exists n. reflexivity.
  - intros s n i Hn Hi. cbn in Hn. unfold seen_state. cbn. req2 n; cbn; discriminate.
  - exact Hmi.
  - exact Hms.
  - exact Hmo.
  - intros s n Hn. cbn in *. req2 n; discriminate.
  - intros s a b c Hab Hbc Hc. cbn in Hc. lia.
  - intros s m n i Hmn Hn Hi. cbn in *. injection Hi as <-. lia.
  - intros s m n Hmn Hn Hc. reflexivity.
Qed.

(* ... and without HandlerCaughtUp the conclusion fails: everything else holds of [tiny_lagging],
   whose log holds the acknowledged post twice (D14) *)
Lemma tiny_lagging_contract : ContractWithoutCaughtUp tiny_lagging.
Proof.
  destruct (tiny_marker [5%N; 5%N] (fun _ : bool => 2) 2 (fun _ => 5%N) (fun n => n) (fun _ => 0)
              (fun n => Some n) (fun n => match n with 0 => false | _ => true end)) as (Hmi & Hms & Hmo).
  unfold ContractWithoutCaughtUp; repeat apply conj.
  - intros i. split; reflexivity.
  - intros s n Hn. cbn. lia.
  - intros s n i Hn Hi. cbn in *. injection Hi as <-. lia.
  - intros s n i Hn Hi. destruct s. apply tiny_copy_at. cbn in Hi. injection Hi as <-.
    cbn in Hn. req2 n; reflexivity.
  - intros s c i H. destruct s. apply tiny_copy_at in H. cbn.
    destruct i as [|[|i]]; cbn in H.
    + injection H as <-. exists 0. repeat split; lia.
    + injection H as <-. exists 1. repeat split; lia.
    + destruct i; discriminate.
  - intros s n Hn _. left. exists n. reflexivity.
  - intros s n i Hn Hi. unfold seen_state. cbn. discriminate.
  - exact Hmi.
  - exact Hms.
  - exact Hmo.
  - intros s n Hn. cbn. discriminate.
  - intros s a b c Hab Hbc Hc _. reflexivity.
  - intros s m n i Hmn Hn Hi. cbn in *. injection Hi as <-. lia.
Qed.

Theorem refuted_without_caught_up : exists M, ContractWithoutCaughtUp M /\ ~ HandlerCaughtUp M /\
  TwoCopies M /\ ~ ExactlyOnceInLog M.
Proof.
  exists tiny_lagging. split; [exact tiny_lagging_contract|]. split; [|split].
  - intros H. specialize (H tt 0 1). cbn in H. assert (0 = 1) by (apply H; [lia|lia|reflexivity]). discriminate.
  - exists tt, 5%N, 0, 1. split; [discriminate|]. split; [|split].
    + apply tiny_copy_at. reflexivity.
    + apply tiny_copy_at. reflexivity.
    + exists 1. cbn. repeat split; lia.
  - intros H. destruct (H tt 1) as (i & _ & Hu); [cbn; lia|reflexivity|].
    assert (H0 : 0 = i) by (apply Hu, tiny_copy_at; reflexivity).
    assert (H1 : 1 = i) by (apply Hu, tiny_copy_at; reflexivity). lia.
Qed.
